#!/usr/bin/env python3
"""Regenerates /verif/MANIFEST.json from the table below."""
import json, os
V = os.path.dirname(os.path.dirname(os.path.abspath(__file__)))
props = [json.loads(l) for l in open(os.path.join(V, 'properties.jsonl'))]

TRUST = ("Trusted: go/ssa's rendering of the package (x/tools v0.29.0), the engine's instruction semantics (validated on every run against the native build: "
         "selftest on the repository's 1146 function-free suite pairs in setup, plus native replay of a sample of each run's own witnesses), z3 4.8.12, and the "
         "environment models listed in the evidence file ('stubs'). Everything outside the stated bounds is outside the claim.")

claimed = {
 'C11': dict(
   level='model_checking',
   text=("Bounded symbolic execution of the real code: Parse runs on `$[S:E:T]` / `$[N]` templates whose numerals are holes, so the parser actions and both getIndexes kernels "
         "execute on 64-bit symbolic start/end/step (every int64 value, every omitted-combination), for each array length 0..6 (thorough 0..12). On every path z3 decides the "
         "assertions 'no panic', 'empty selection <=> ErrorMemberNotExist', 'same length and same elements as the overflow-free Python-slice reference'. unsat = holds for all "
         "values within the bound; sat = concrete literals, replayed against the native build before being reported."),
   design='§5 C11, §2',
   technique='solver-based bounded symbolic execution of go/ssa (own engine symgo) with z3; counterexamples replayed natively',
   note=TRUST + " Array lengths above the bound and the digit-string<->value relation of strconv.Atoi are outside the claim."),
}

m = {
 "version": 1,
 "setup_cmd": "cd /verif && export GOFLAGS=-mod=mod GOPROXY=off GOSUMDB=off GOTOOLCHAIN=local && go build -o bin/verif ./cmd/verif && bin/verif selftest",
 "hooks": {"guard": "verif",
           "enable": "no source hooks: harness files (/verif/harness/*.go, //go:build verif, package jsonpath) are injected as /repo/zz_verif_*.go through go/packages Overlay for the engine and `go test -tags verif -overlay` for native replays; nothing is written into /repo",
           "baseline_off_cmd": "cd /repo && go test -vet=off -count=1 ./...",
           "source_commits": [], "add_only": True},
 "engines": [{"name": "symgo", "path": "/verif/engine", "serves_properties": sorted(claimed),
              "kind_free_text": "symbolic interpreter for go/ssa (explicit copy-on-write heap, forking DFS, hash-consed SMT-LIB terms, one z3 -in per worker, lazy symbolic JSON documents, native replay of every counterexample)"}],
 "checks": [],
 "not_applicable": [],
 "notes": "Exit codes of checks: 0 held on everything explored; 1 + VIOLATION line for a natively reproduced violation not listed in known_findings.jsonl; 3 = inconclusive (solver unknown, unwinding bound hit, unsupported construct, unreproduced candidate) - never reported as success.",
}
for p in props:
    pid = p['id']
    if pid in claimed:
        c = claimed[pid]
        m['checks'].append({
            "property_id": pid,
            "quick_cmd": f"cd /verif && bin/verif check {pid} --tier quick",
            "thorough_cmd": f"cd /verif && bin/verif check {pid} --tier thorough",
            "evidence_file": f"/verif/evidence/{pid}.json",
            "replay_cmd_template": "cd /verif && bin/verif replay {path}",
            "engine": "symgo",
            "level_claimed": {"category": c['level'], "text": c['text'], "design_ref": c['design']},
            "level_note": c['note'],
            "technique": c['technique'],
        })
    else:
        m['not_applicable'].append({"property_id": pid, "reason": "check not built yet (engine exists; harness for this property under construction) - will be claimed once a bound has run clean on the unchanged tree"})
json.dump(m, open(os.path.join(V, 'MANIFEST.json'), 'w'), indent=1)
print("claimed:", sorted(claimed))
