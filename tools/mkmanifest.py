#!/usr/bin/env python3
"""Regenerates /verif/MANIFEST.json from the table below."""
import json, os
V = os.path.dirname(os.path.dirname(os.path.abspath(__file__)))
props = [json.loads(l) for l in open(os.path.join(V, 'properties.jsonl'))]

TRUST = ("Trusted: go/ssa's rendering of the package (x/tools v0.29.0), the engine's instruction semantics (validated on every run against the native build: "
         "selftest on the repository's 1146 function-free suite pairs in setup, plus native replay of a sample of each run's own witnesses), z3 4.8.12, and the "
         "environment models listed in the evidence file ('stubs'). Everything outside the stated bounds is outside the claim.")

def claim(level, text, design, note_extra=""):
    return dict(level=level, text=text, design=design,
                technique='solver-based bounded symbolic execution of the real code (go/ssa -> SMT-LIB, z3) by the symgo engine; counterexamples replayed natively before being reported',
                note=TRUST + (" " + note_extra if note_extra else ""))

BOUNDED = ("On every explored path z3 decides the payload-dependent branches and the assertions: unsat = holds for every value within the bound, sat = a concrete witness that is replayed against the native build before it is reported. ")

claimed = {
 'C01': claim('model_checking', "Differential bounded model checking of the real code: Parse and the parsed function run symbolically on corpus paths (all 1-2 step sequences over a 23-step alphabet, sampled 3-step, filter and function paths; numerals as symbolic holes) against lazily resolved symbolic documents (depth <= 3, arrays 0..2, keys {a,b}, all JSON scalar kinds with symbolic payloads, float64 and json.Number decoding). The result sequence must equal that of an independent reference evaluator executed symbolically on the same document. " + BOUNDED, '§5 C01, App. B'),
 'C02': claim('model_checking', "Parse, including the generated PEG recogniser and every action, is executed symbolically on (a) every string of 1..6 symbolic ASCII bytes and (b) ~1400 skeleton paths (corpus, failing paths, the suite's own paths) with one symbolic byte at a position, under three configurations. Asserted on every path: no panic escapes, mutex free and parser state reset on return, exactly one of function/error, error of a documented type; exceeding the call-depth bound is a violation candidate confirmed natively (crash). " + BOUNDED, '§5 C02', "Symbolic non-ASCII bytes and more than 2 free bytes in longer strings are outside the claim."),
 'C03': claim('model_checking', "The parsed function runs symbolically on corpus paths (emphasis: int64 numeral holes in every subscript position, function paths incl. failing functions) over symbolic documents of every root kind, float64 and json.Number. Asserted on every path: no panic, non-empty result with nil error or nil result with a documented runtime error, ErrorFunctionFailed only if a user function failed. " + BOUNDED, '§5 C03'),
 'C04': claim('model_checking', "Explicit-heap frame condition: after each evaluation (success or error, plain and accessor mode without Set) every materialised cell of the symbolic document is compared with its initial content. Corpus emphasises filters combining == != && || ! over present/missing/$-rooted operands. " + BOUNDED, '§5 C04'),
 'C05': claim('model_checking', "Per call from the post-Parse state: parsed tree unchanged (heap digest), no read of a buffer after it was Put (poisoning), result slice freshly allocated and unreachable from globals/pools; plus explicit histories (2 calls on independent symbolic documents, optional pool-recycling Retrieve in between, optional scribbling over the returned slice) compared with fresh Retrieve calls. Longer histories only through the per-call obligations (one-step induction). " + BOUNDED, '§5 C05'),
 'C06': claim('model_checking', "Schedules are not enumerated. The check shows, on symbolic inputs, a sufficient condition: every Parse writes pre-existing shared memory only while holding parseMutex and releases it on every exit; every evaluation writes only memory allocated in the call or owned through sync.Pool.Get and never touches the global parser; a parsed function shares no object with the global parser. Hence calls are conflict-free, data-race free and serialisable. Candidates are confirmed natively by goroutines under -race. " + BOUNDED, '§5 C06', "sync.Mutex, sync.Pool and regexp are trusted to be goroutine-safe; conflict-freedom is a sufficient condition, not an exploration of schedules."),
 'C07': claim('model_checking', "Map iteration order is an explicit nondeterministic choice in the engine: getSortedKeys is explored for every key subset (size <= 4) of 7 keys that sort differently by byte/rune/length under every iteration permutation with dirty pooled slices; wildcard/filter/recursive traversals are explored under every permutation at every range site and compared with the reference order. " + BOUNDED, '§5 C07'),
 'C08': claim('model_checking', "Relational: for splits P.Q of corpus paths the real retrieval of P.Q is compared with the concatenation of $Q over the results of P on one symbolic document; union/multi-name = concatenation of single selectors; ..X = X over all containers in pre-order. " + BOUNDED, '§5 C08', "A multi-identifier mixing names and * applied to an array, and a union applied to an object, are excluded from the single-selector instance (the statement does not settle them)."),
 'C09': claim('model_checking', "Relational over filter pairs on one symbolic container (array 0..2 or object over {a,b}, members of every kind): A&&B = intersection, A||B = union, !p and != = complement, operand swap with mirrored operator, <=/>= = </> union ==. Selections are compared by member position, observed through accessors. Number literal is a symbolic finite float64. " + BOUNDED, '§5 C09'),
 'C10': claim('model_checking', "(a) Every comparison filter (7 operators x operand kinds x both orders) against the typed-comparison reference on documents with float64, json.Number and mixed leaves; (b) twin relation: the same symbolic document with numbers as float64 and as json.Number selects the same member positions. " + BOUNDED, '§5 C10', "json.Number is modelled as (spelling identity, finite numeric value); the twin run assumes finite non-negative-zero numbers in shortest formatting."),
 'C11': claim('model_checking', "Parse runs on `$[S:E:T]` / `$[N]` templates whose numerals are holes, so the parser actions and both getIndexes kernels execute on 64-bit symbolic start/end/step (every int64 value, every omitted-combination) for each array length 0..8 (thorough 0..16). Asserted: no panic, empty selection <=> ErrorMemberNotExist, same elements as the overflow-free Python-slice reference. " + BOUNDED, '§5 C11', "Array lengths above the bound and the digit-string<->value relation of strconv.Atoi are outside the claim."),
 'C12': claim('model_checking', "Relational: the same path parsed with and without accessor mode (identical recording functions) evaluated on one symbolic document: same count, Get() equals the plain value, same error text, identical function-call logs, no Accessor ever reaches a user function. " + BOUNDED, '§5 C12'),
 'C13': claim('model_checking', "For every accessor index of every corpus path on a symbolic document: Set is nil exactly for non-locations; Set writes the sentinel into exactly the location the reference evaluator predicts (heap diff of the document), Get returns it and follows later direct updates. " + BOUNDED, '§5 C13'),
 'C14': claim('model_checking', "Recording user functions: the call log of the real evaluation is compared with the reference evaluator's (per chain position: same functions, same arguments, same order; aggregates once with all values or the elements of the single array); ErrorFunctionFailed must name a function that failed. " + BOUNDED, '§5 C14', "For functions inside filter operands only the set of calls is compared (how often an operand is evaluated is not prescribed)."),
 'C15': claim('model_checking', "On failing (path, document) pairs the error message of the real evaluation must be one of the messages the reference computes for failures at the deepest failing step, non-type failures preferred; exactly one candidate for single-valued paths. " + BOUNDED, '§5 C15'),
 'C16': claim('model_checking', "Keys with symbolic ASCII bytes (66 tricky skeletons, 0-1 symbolic byte at each position, near-miss sibling keys) go through the reference escaper, the real PEG parser, the three unescape routines and the map lookup; each spelling (single/double quoted, dot) must return exactly the member, at the root, below a name step and inside a filter operand. " + BOUNDED, '§5 C16', "Symbolic bytes are ASCII; `..` with symbolic keys is not modelled (sorting)."),
 'C17': claim('translation_validation', "Translation validation of jsonpath.peg.go against jsonpath.peg, both read from /repo on every run: the generated recogniser (real code) and an interpreter of the grammar file run jointly on the same symbolic strings (1..5 symbolic bytes, thorough 6; skeletons with a symbolic byte); traces of text captures and actions, acceptance, error position and `near` text must agree on every path; the action bodies of Execute() are compared textually with the grammar's. " + BOUNDED, '§5 C17, App. F', "The semantic restrictions beyond the grammar are implemented by the (textually compared) action bodies; their outcome is checked only as 'rejected by the grammar => error'."),
 'C18': claim('model_checking', "Relational: each corpus path against 3 (thorough 6) respellings (spaces, quotes, signs and leading zeros, .* vs [*], .name vs ['name'], omitted $, omitted slice parts), both parsed by the interpreted real parser and evaluated on one symbolic document: same values, or same error kind at the same step. " + BOUNDED, '§5 C18'),
 'C19': claim('model_checking', "Histories of 1-3 (thorough 1-5) earlier Parse calls (valid paths and paths failing at every action kind, 6 configurations) followed by the call under test: parser state zero and mutex free after every call; outcome equal to the same call made first, by error text and by behaviour on a symbolic document incl. function identity and accessor wrapping; modifying the Config afterwards changes nothing. " + BOUNDED, '§5 C19'),
 'C20': claim('model_checking', "Documents whose leaves range over 22 non-JSON Go value prototypes besides the JSON kinds; interface equality incl. the run-time panic on uncomparable types is implemented in the engine. Asserted: no panic, documented errors, results equal to the reference evaluator (opaque values are present, untyped, deep-equal by reflect.DeepEqual). " + BOUNDED, '§5 C20', "One prototype per Go type family."),
}

NA = {}
CLEAN = set(open(os.path.join(V, 'tools', 'clean_ids.txt')).read().split())
claimed = {k: v for k, v in claimed.items() if k in CLEAN}

m = {
 "version": 1,
 "setup_cmd": "cd /verif && export GOFLAGS=-mod=mod GOPROXY=off GOSUMDB=off GOTOOLCHAIN=local && go build -o bin/verif ./cmd/verif && bin/verif selftest",
 "hooks": {"guard": "verif",
           "enable": "no source hooks: harness files (/verif/harness/*.go, //go:build verif, package jsonpath) are injected as /repo/zz_verif_*.go through go/packages Overlay for the engine and `go test -tags verif -overlay` for native replays; nothing is written into /repo",
           "baseline_off_cmd": "cd /repo && go test -vet=off -count=1 ./...",
           "source_commits": [], "add_only": True},
 "engines": [{"name": "symgo", "path": "/verif/engine", "serves_properties": sorted(claimed),
              "kind_free_text": "symbolic interpreter for go/ssa (explicit copy-on-write heap, forking DFS, hash-consed SMT-LIB terms, one z3 -in per worker, lazy symbolic JSON documents, native replay of every counterexample)"}],
 "checks": [],
 "not_applicable": [],
 "notes": "Exit codes of checks: 0 held on everything explored; 1 + VIOLATION line for a natively reproduced violation not listed in known_findings.jsonl; 3 = inconclusive (solver unknown, unwinding bound hit, unsupported construct, unreproduced candidate) - never reported as success. Thorough tiers explore under a wall-clock budget (VERIF_BUDGET_S, default 240 s of exploration, 0 = none; sample sizes capped by VERIF_THOROUGH_SCALE, default 3): jobs not started within it are listed in the evidence (time_budget.jobs_not_run) and are outside that run's claim. /verif/evidence_thorough/ keeps the evidence of the last complete thorough pass on the unchanged tree.",
}
for p in props:
    pid = p['id']
    if pid in claimed:
        c = claimed[pid]
        m['checks'].append({
            "property_id": pid,
            "quick_cmd": f"cd /verif && bin/verif check {pid} --tier quick",
            "thorough_cmd": f"cd /verif && bin/verif check {pid} --tier thorough",
            "evidence_file": f"/verif/evidence/{pid}.json",
            "replay_cmd_template": "cd /verif && bin/verif replay {path}",
            "engine": "symgo",
            "level_claimed": {"category": c['level'], "text": c['text'], "design_ref": c['design']},
            "level_note": c['note'],
            "technique": c['technique'],
        })
    else:
        m['not_applicable'].append({"property_id": pid, "reason": NA.get(pid, "no check has run clean for this property on the unchanged tree yet")})
json.dump(m, open(os.path.join(V, 'MANIFEST.json'), 'w'), indent=1)
print("claimed:", sorted(claimed))
