#!/usr/bin/env python3
"""Builds /verif/seeded/<id>/ from the mutant evaluation logs (tools/mutant.sh output).
usage: seed_from_logs.py <log>...   (later logs override earlier results of the same check)"""
import sys, re, os, json, shutil
res = {}   # (prop, i) -> dict
for log in sys.argv[1:]:
    for line in open(log):
        m = re.match(r'MUTANT (\S+)/(C\d\d) #(\d): suite-with=\[(.*?)\] demo-with=\[(.*?)\] demo-without=\[(.*?)\]', line)
        if m:
            key = (m.group(1), m.group(2), m.group(3))
            r = res.setdefault(key, {"src": m.group(1) + "/" + m.group(2), "checks": {}})
            r["verify"] = {"suite_with_change": m.group(4).split()[0], "demo_with_change": m.group(5).split()[0], "demo_without_change": m.group(6).split()[0]}
            continue
        m = re.match(r'MUTANT (\S+)/(C\d\d) #(\d) check (C\d\d) exit=(\d+): (\d+) violation lines; (.*)', line)
        if m:
            key = (m.group(1), m.group(2), m.group(3))
            r = res.setdefault(key, {"src": m.group(1) + "/" + m.group(2), "checks": {}})
            r["checks"][m.group(4)] = {"exit": int(m.group(5)), "violation_lines": int(m.group(6)), "summary": m.group(7).strip()[:400]}
for (srcroot, prop, i), r in sorted(res.items()):
    v = r.get("verify")
    if not v or v["suite_with_change"] != "ok" or v["demo_with_change"] != "FAIL" or v["demo_without_change"] != "ok":
        print("NOT CONFIRMED", prop, i, v)
        continue
    sid = ("R2-" if "out2" in srcroot else "R3-" if "out3" in srcroot else "R4-" if "out4" in srcroot else "") + f"{prop}-m{i}"
    d = os.path.join('/verif/seeded', sid)
    os.makedirs(d, exist_ok=True)
    shutil.copy(os.path.join(r["src"], f'mutant{i}.patch'), os.path.join(d, 'patch.diff'))
    shutil.copy(os.path.join(r["src"], f'mutant{i}_demo_test.go'), os.path.join(d, 'demo_test.go.txt'))
    md = os.path.join(r["src"], f'mutant{i}.md')
    notes = open(md).read().strip() if os.path.exists(md) else ''
    detected = sorted(c for c, x in r["checks"].items() if x["exit"] == 1)
    ran = [{"cmd": "scratch worktree of /repo HEAD: git apply patch.diff && go test -vet=off -count=1 ./...", "result": v["suite_with_change"]},
           {"cmd": f"scratch worktree with the change: go test -run TestMutantDemo{i} (demo_test.go.txt copied in as a _test.go file)", "result": v["demo_with_change"]},
           {"cmd": f"scratch worktree without the change: go test -run TestMutantDemo{i}", "result": v["demo_without_change"]}]
    for c, x in sorted(r["checks"].items()):
        ran.append({"cmd": f"git -C /repo apply patch.diff && cd /verif && bin/verif check {c} --tier quick; git -C /repo checkout -- .", "result": f"exit {x['exit']}, {x['violation_lines']} VIOLATION lines; {x['summary']}"})
    meta = {"id": sid, "breaks_property": prop, "origin": "fresh sub-agent given only the property text and its own scratch worktree of /repo",
            "what_and_what_it_needs_to_manifest": notes, "ran": ran, "detected_by_checks": detected,
            "files": {"patch": "patch.diff", "demonstration": "demo_test.go.txt (Go test in package jsonpath; fails with the change, passes without)"}}
    json.dump(meta, open(os.path.join(d, 'meta.json'), 'w'), indent=1)
    print(sid, "detected by", detected or "NONE")
