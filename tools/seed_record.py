#!/usr/bin/env python3
"""Record a confirmed seeded change under /verif/seeded/<id>/.
usage: seed_record.py <src-dir> <i> <seed-id> <property> '<needs>' '<json list of {"cmd":..,"result":..}>' ['<detected_by json list>']"""
import sys, os, json, shutil
src, i, sid, prop, needs, ran = sys.argv[1:7]
detected = json.loads(sys.argv[7]) if len(sys.argv) > 7 else []
d = os.path.join('/verif/seeded', sid)
os.makedirs(d, exist_ok=True)
shutil.copy(os.path.join(src, f'mutant{i}.patch'), os.path.join(d, 'patch.diff'))
shutil.copy(os.path.join(src, f'mutant{i}_demo_test.go'), os.path.join(d, 'demo_test.go.txt'))
notes = open(os.path.join(src, f'mutant{i}.md')).read() if os.path.exists(os.path.join(src, f'mutant{i}.md')) else ''
meta = {"id": sid, "property": prop, "origin": "independent sub-agent given only the property text and a scratch worktree",
        "what": notes.strip(), "needs_to_manifest": needs, "ran": json.loads(ran), "detected_by": detected,
        "files": {"patch": "patch.diff", "demonstration": "demo_test.go.txt (a Go test in package jsonpath; copy into the worktree as *_test.go)"}}
json.dump(meta, open(os.path.join(d, 'meta.json'), 'w'), indent=1)
print("recorded", d)
