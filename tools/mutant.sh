#!/bin/bash
# usage: tools/mutant.sh <mutant-dir> <i> <check> [<check>...]
# 1. verifies the mutant in a scratch worktree (suite passes, demo fails with it and passes without)
# 2. applies it to /repo, runs the given checks (quick), reverts /repo
export GOFLAGS=-mod=mod GOPROXY=off GOSUMDB=off GOTOOLCHAIN=local
D=$1; I=$2; shift 2
P=$D/mutant$I.patch; T=$D/mutant${I}_demo_test.go
W=/tmp/mutverify.$$
git -C /repo worktree add -q --detach $W HEAD || exit 9
(
cd $W
git apply $P || { echo "MUTANT patch does not apply"; exit 8; }
go build ./... || { echo "MUTANT does not build"; exit 8; }
S=$(go test -vet=off -count=1 ./... 2>&1 | tail -1)
cp $T ./zz_mutant_demo_test.go
DW=$(go test -vet=off -count=1 -run "TestMutantDemo$I\$" . 2>&1 | tail -1)
git checkout -q -- . ; 
DWO=$(go test -vet=off -count=1 -run "TestMutantDemo$I\$" . 2>&1 | tail -1)
echo "MUTANT $D #$I: suite-with=[$S] demo-with=[$DW] demo-without=[$DWO]"
)
git -C /repo worktree remove --force $W
cd /verif
git -C /repo apply $P || exit 8
for c in "$@"; do
  timeout 1800 bin/verif check $c > /tmp/mutrun_$c.log 2>&1; rc=$?
  echo "MUTANT $D #$I check $c exit=$rc: $(grep -c '^VIOLATION' /tmp/mutrun_$c.log) violation lines; $(grep '^check ' /tmp/mutrun_$c.log | cut -c1-200)"
  grep -A1 '^VIOLATION' /tmp/mutrun_$c.log | grep labels | sed 's/job=.*//' | sort | uniq -c | sort -rn | head -4
  grep '^INCONC\|^UNCONF' /tmp/mutrun_$c.log | cut -c1-250 | head -3
done
git -C /repo checkout -- .
git -C /repo status --short | head -3
