#!/bin/bash
# For each fix: commit of /repo, re-introduce the defect alone (reverse-apply the commit on the
# current tree), run the check(s) that should catch it, restore /repo.
# usage: tools/revert_check.sh <commit> <check>...
cd /verif
C=$1; shift
git -C /repo show $C --format= -- . > /tmp/revert_$C.diff
git -C /repo apply -R /tmp/revert_$C.diff || { echo "REVERT $C does not reverse-apply"; exit 8; }
S=$(cd /repo && GOFLAGS=-mod=mod GOPROXY=off go test -vet=off -count=1 ./... 2>&1 | tail -1 | cut -c1-60)
for c in "$@"; do
  timeout 1800 bin/verif check $c > /tmp/revrun_$c.log 2>&1; rc=$?
  echo "REVERT $C ($(git -C /repo log -1 --format=%s $C | cut -c1-70)) suite=[$S] check $c exit=$rc: $(grep -c '^VIOLATION' /tmp/revrun_$c.log) violation lines; $(grep -A1 '^VIOLATION' /tmp/revrun_$c.log | grep labels | sed 's/job=.*//' | head -2 | tr '\n' ' ' | cut -c1-200)"
done
git -C /repo checkout -- .
