package engine

import (
	"fmt"
	"go/constant"
	"go/token"
	"go/types"
	"runtime/debug"
	"strings"

	"golang.org/x/tools/go/ssa"
)

// Worker owns a term pool, a solver and an exploration in progress.
type Worker struct {
	P           *Program
	Pool        *TermPool
	Solver      *Solver
	FuelPerPath int
	MaxDepth    int
	Job         *Job

	BranchQueries, AssertQueries, Forks, Paths int
	identCache                                 map[[2]types.Type]bool
	implCache                                  map[[2]types.Type]bool
	methodCache                                map[methodKey]*ssa.Function
	inNested                                   int
	sbvCache                                   map[*Term]*Term
	DomainDecisions, DomainRechecks            int
	DomainDisagreements                        int
	DomainRefinements                          int
	RecheckRate                                float64
	rngState                                   uint64
	Steps                                      int64
}

type methodKey struct {
	t    types.Type
	name string
}

func NewWorker(p *Program, backend string, logPath string) (*Worker, error) {
	w := &Worker{P: p, Pool: NewTermPool(), FuelPerPath: 5_000_000, MaxDepth: 400,
		identCache: map[[2]types.Type]bool{}, implCache: map[[2]types.Type]bool{}, methodCache: map[methodKey]*ssa.Function{},
		sbvCache: map[*Term]*Term{}}
	s, err := NewSolver(backend, w.Pool, logPath)
	if err != nil {
		return nil, err
	}
	w.Solver = s
	return w, nil
}

func (w *Worker) Close() { w.Solver.Close() }

// recheckDue decides pseudo-randomly (seeded, deterministic per worker)
// whether the next byte-domain verdict is re-checked with the solver.
func (w *Worker) recheckDue() bool {
	if w.RecheckRate <= 0 {
		return false
	}
	if w.RecheckRate >= 1 {
		return true
	}
	w.rngState = w.rngState*6364136223846793005 + 1442695040888963407
	return float64(w.rngState>>11)/float64(1<<53) < w.RecheckRate
}

func (w *Worker) identical(a, b types.Type) bool {
	if a == b {
		return true
	}
	k := [2]types.Type{a, b}
	if v, ok := w.identCache[k]; ok {
		return v
	}
	v := types.Identical(a, b)
	w.identCache[k] = v
	return v
}

func (w *Worker) implements(t types.Type, it types.Type) bool {
	k := [2]types.Type{t, it}
	if v, ok := w.implCache[k]; ok {
		return v
	}
	v := types.Implements(t, it.Underlying().(*types.Interface))
	w.implCache[k] = v
	return v
}

type goPanicReq struct{ v Value }
type endReq struct{}

// goPanic raises a Go-level panic in the interpreted program.
func (s *State) goPanic(v Value) { panic(goPanicReq{v: v}) }

// goPanicRuntime raises a runtime error panic (value of a runtime error type).
func (s *State) goPanicRuntime(msg string, typ string) {
	var t types.Type
	switch typ {
	case "TypeAssertionError":
		t = types.NewPointer(s.W.P.runtimeType("TypeAssertionError"))
	case "boundsError":
		t = s.W.P.runtimeType("boundsError")
	default:
		t = s.W.P.runtimeType("errorString")
	}
	s.goPanic(Iface{T: t, V: HostV{V: runtimeErr{msg: "runtime error: " + msg}}})
}

type runtimeErr struct{ msg string }

func (e runtimeErr) Error() string { return e.msg }
func (e runtimeErr) RuntimeError() {}

// runToCompletion runs a state that must not fork (package init).
func (w *Worker) runToCompletion(st *State) {
	kids := w.RunPath(st)
	if len(kids) > 0 {
		st.Status = PathAborted
		st.AbortMsg = "unexpected fork"
	}
}

// RunPath runs st until it terminates or forks; in the latter case the
// children are returned.
func (w *Worker) RunPath(st *State) []*State {
	for {
		kids, again := w.runGuarded(st)
		if !again {
			return kids
		}
	}
}

func (w *Worker) runGuarded(st *State) (kids []*State, again bool) {
	defer func() {
		r := recover()
		if r == nil {
			return
		}
		w.inNested = 0
		switch x := r.(type) {
		case goPanicReq:
			st.raisePanic(x.v)
			again = true
		case forkReq:
			w.Forks++
			kids = make([]*State, x.n)
			for i := 0; i < x.n; i++ {
				c := st.clone()
				c.choices = append(c.choices, Choice{Label: x.label, Alt: i, N: x.n})
				func() {
					defer func() {
						if r2 := recover(); r2 != nil {
							switch y := r2.(type) {
							case skipReq:
								c.Status = PathSkipped
								c.AbortMsg = y.msg
							case abortReq:
								c.Status = PathAborted
								c.AbortMsg = y.msg
							default:
								panic(r2)
							}
						}
					}()
					x.apply(c, i)
				}()
				kids[i] = c
			}
		case endReq:
		case abortReq:
			st.Status = PathAborted
			st.AbortMsg = x.msg + st.where()
		case skipReq:
			st.Status = PathSkipped
			st.AbortMsg = x.msg
		default:
			st.Status = PathAborted
			st.AbortMsg = fmt.Sprintf("engine bug: %v%s\n%s", r, st.where(), debug.Stack())
		}
	}()
	for st.Status == PathRunning {
		w.step(st)
	}
	return nil, false
}

func (s *State) where() string {
	if len(s.frames) == 0 {
		return ""
	}
	var sb strings.Builder
	sb.WriteString(" at")
	for i := len(s.frames) - 1; i >= 0 && i >= len(s.frames)-6; i-- {
		fr := s.frames[i]
		pos := ""
		if fr.block < len(fr.fi.fn.Blocks) {
			b := fr.fi.fn.Blocks[fr.block]
			if fr.pc < len(b.Instrs) {
				if p := b.Instrs[fr.pc].Pos(); p.IsValid() {
					pp := s.W.P.Fset.Position(p)
					pos = fmt.Sprintf("(%s:%d)", shortFile(pp.Filename), pp.Line)
				}
			}
		}
		sb.WriteString(" " + fr.fi.fn.Name() + pos)
	}
	return sb.String()
}

func shortFile(f string) string {
	if i := strings.LastIndex(f, "/"); i >= 0 {
		return f[i+1:]
	}
	return f
}

// ---- calls, returns, panics ----

func (s *State) pushCall(fv *FuncV, args []Value, dst int, isDefer bool) {
	fn := fv.Fn
	if len(fn.Blocks) == 0 {
		s.abort("call of function without body: %s", fn.String())
	}
	if len(s.frames) >= s.W.MaxDepth {
		if s.W.Job != nil && s.W.Job.DepthIsViolation {
			s.recordViolation("unbounded-recursion", fmt.Sprintf("call depth bound %d exceeded in %s", s.W.MaxDepth, fn.String()))
			s.frames = nil
			s.Status = PathDone
			panic(endReq{})
		}
		s.abort("call depth bound %d exceeded (unbounded recursion?) in %s", s.W.MaxDepth, fn.String())
	}
	fi := s.W.P.info(fn)
	fr := &Frame{fi: fi, env: make([]Value, fi.nregs), dst: dst, isDefer: isDefer, prev: -1}
	n := copy(fr.env, args)
	if n != len(fn.Params) {
		s.abort("arity mismatch calling %s: %d args for %d params", fn.String(), len(args), len(fn.Params))
	}
	copy(fr.env[n:], fv.Bind)
	s.frames = append(s.frames, fr)
	if fn.Pkg == s.W.P.Pkg && !strings.HasPrefix(fn.Name(), "zz") {
		s.W.P.FuncsExecuted.LoadOrStore(fn.RelString(s.W.P.Pkg.Pkg), true)
	}
}

// finishCall delivers the result of a synchronously executed callee (stub,
// intrinsic, builtin) to the current frame and advances it.
func (s *State) finishCall(fr *Frame, dst int, res Value) {
	if dst >= 0 {
		fr.env[dst] = res
	}
	fr.pc++
}

func (s *State) doReturn(fr *Frame, res Value) {
	s.frames = s.frames[:len(s.frames)-1]
	if fr.nested {
		fr.retVal = res
		fr.returned = true
		return
	}
	if len(s.frames) == 0 {
		s.Status = PathDone
		return
	}
	caller := s.frames[len(s.frames)-1]
	if fr.isDefer {
		return // caller re-executes RunDefers or continues unwinding
	}
	if fr.dst >= 0 {
		caller.env[fr.dst] = res
	}
	caller.pc++
}

func (s *State) raisePanic(v Value) {
	if len(s.frames) == 0 {
		s.Status = PathPanicked
		return
	}
	s.panicVal = v
	s.panicSet = true
	s.frames[len(s.frames)-1].panicking = true
}

func (s *State) continueUnwind(fr *Frame) {
	if len(fr.defers) > 0 {
		d := fr.defers[len(fr.defers)-1]
		fr.defers = fr.defers[:len(fr.defers)-1]
		s.invokeDeferred(d)
		return
	}
	if !s.panicSet {
		// recovered: resume at the Recover block or return zero results
		fr.panicking = false
		if rb := fr.fi.fn.Recover; rb != nil {
			fr.prev = fr.block
			fr.block = fr.fi.bindex[rb]
			fr.pc = 0
			return
		}
		var res Value
		sig := fr.fi.fn.Signature
		switch sig.Results().Len() {
		case 0:
		case 1:
			res = zero(sig.Results().At(0).Type())
		default:
			res = zero(sig.Results())
		}
		s.doReturn(fr, res)
		return
	}
	// propagate to caller
	s.frames = s.frames[:len(s.frames)-1]
	if fr.nested {
		fr.returned = true
	}
	if len(s.frames) == 0 {
		s.Status = PathPanicked
		return
	}
	s.frames[len(s.frames)-1].panicking = true
}

func (s *State) invokeDeferred(d *deferred) {
	s.callValue(d.fn, d.args, -1, true)
}

// callValue calls a function value with evaluated arguments. For intrinsic and
// stub functions the call completes synchronously.
func (s *State) callValue(fv *FuncV, args []Value, dst int, isDefer bool) {
	if fv == nil {
		s.goPanicRuntime("invalid memory address or nil pointer dereference", "errorString")
	}
	fr := s.frames[len(s.frames)-1]
	if fv.Fn == nil {
		res := s.callHost(fv, args)
		if !isDefer {
			s.finishCall(fr, dst, res)
		}
		return
	}
	fn := fv.Fn
	if fn.Pkg == s.W.P.Pkg || fn.Pkg == nil && fn.Parent() != nil && fn.Parent().Pkg == s.W.P.Pkg {
		if strings.HasPrefix(fn.Name(), "zz") {
			if h, ok := intrinsics[fn.Name()]; ok {
				res := h(s, args)
				if !isDefer {
					s.finishCall(fr, dst, res)
				}
				return
			}
		}
		s.pushCall(fv, args, dst, isDefer)
		return
	}
	// external function or synthetic wrapper
	name := fn.String()
	if h, ok := stubs[name]; ok {
		res := h(s, args)
		if !isDefer {
			s.finishCall(fr, dst, res)
		}
		return
	}
	if fn.Pkg != nil && fn.Pkg != s.W.P.Pkg && fn.Name() == "init" {
		if !isDefer {
			s.finishCall(fr, dst, nil)
		}
		return
	}
	if len(fn.Blocks) == 0 {
		s.abort("external function without model: %s", name)
	}
	if fn.Pkg != nil && !allowedExternalPkgs[fn.Pkg.Pkg.Path()] {
		s.abort("external function without model: %s", name)
	}
	s.pushCall(fv, args, dst, isDefer)
}

var allowedExternalPkgs = map[string]bool{"sort": true, "strings": true, "unicode/utf8": true, "math/bits": true, "unicode": true, "bytes": true, "errors": false}

// callNested runs fv to completion synchronously (no forks allowed inside).
func (s *State) callNested(fv *FuncV, args []Value) Value {
	w := s.W
	base := len(s.frames)
	if fv.Fn == nil {
		return s.callHost(fv, args)
	}
	savedStatus := s.Status
	s.Status = PathRunning
	s.pushCall(fv, args, -1, false)
	nf := s.frames[len(s.frames)-1]
	nf.nested = true
	w.inNested++
	for !nf.returned && s.Status == PathRunning {
		w.step(s)
	}
	w.inNested--
	s.Status = savedStatus
	if base > 0 && s.frames[base-1].panicking && s.panicSet {
		// a panic escaped the callback: propagate it through the caller
		s.frames[base-1].panicking = false
		s.panicSet = false
		s.goPanic(s.panicVal)
	}
	return nf.retVal
}

// ---- the step function ----

func (w *Worker) step(st *State) {
	if len(st.frames) == 0 {
		st.Status = PathDone
		return
	}
	fr := st.frames[len(st.frames)-1]
	if fr.panicking {
		st.continueUnwind(fr)
		return
	}
	st.Fuel--
	w.Steps++
	if st.Fuel < 0 {
		if w.Job != nil && w.Job.DepthIsViolation {
			// for totality checks "returns in bounded time" is part of the property:
			// running out of the (generous) step budget is a violation candidate
			st.recordViolation("unbounded-time", fmt.Sprintf("more than %d interpreter steps on one path", w.FuelPerPath))
			st.frames = nil
			st.Status = PathDone
			panic(endReq{})
		}
		st.abort("fuel exhausted (unwinding bound)")
	}
	blk := fr.fi.fn.Blocks[fr.block]
	instr := blk.Instrs[fr.pc]
	switch in := instr.(type) {
	case *ssa.DebugRef:
		fr.pc++
	case *ssa.UnOp:
		fr.env[fr.fi.reg[in]] = st.unop(in, st.get(fr, in.X))
		fr.pc++
	case *ssa.BinOp:
		fr.env[fr.fi.reg[in]] = st.binop(in.Op, in.X.Type(), st.get(fr, in.X), st.get(fr, in.Y))
		fr.pc++
	case *ssa.Call:
		st.doCall(fr, in.Common(), fr.fi.reg[in], false)
	case *ssa.ChangeInterface:
		fr.env[fr.fi.reg[in]] = st.get(fr, in.X)
		fr.pc++
	case *ssa.ChangeType:
		fr.env[fr.fi.reg[in]] = st.get(fr, in.X)
		fr.pc++
	case *ssa.Convert:
		fr.env[fr.fi.reg[in]] = st.convert(in.X.Type(), in.Type(), st.get(fr, in.X))
		fr.pc++
	case *ssa.MakeInterface:
		fr.env[fr.fi.reg[in]] = Iface{T: in.X.Type(), V: st.get(fr, in.X)}
		fr.pc++
	case *ssa.Extract:
		fr.env[fr.fi.reg[in]] = st.get(fr, in.Tuple).(Tuple)[in.Index]
		fr.pc++
	case *ssa.Slice:
		fr.env[fr.fi.reg[in]] = st.sliceOp(fr, in)
		fr.pc++
	case *ssa.Return:
		var res Value
		switch len(in.Results) {
		case 0:
		case 1:
			res = st.get(fr, in.Results[0])
		default:
			tu := make(Tuple, len(in.Results))
			for i, r := range in.Results {
				tu[i] = st.get(fr, r)
			}
			res = tu
		}
		st.doReturn(fr, res)
	case *ssa.RunDefers:
		if len(fr.defers) > 0 {
			d := fr.defers[len(fr.defers)-1]
			fr.defers = fr.defers[:len(fr.defers)-1]
			st.invokeDeferred(d)
			return
		}
		fr.pc++
	case *ssa.Panic:
		st.goPanic(st.get(fr, in.X))
	case *ssa.Defer:
		st.doDefer(fr, in)
		fr.pc++
	case *ssa.Go:
		st.abort("go statement unsupported")
	case *ssa.MakeChan:
		// channels are opaque identities; no operation on them is supported
		id := st.heap.alloc(int64(0), in.Type(), "chan")
		fr.env[fr.fi.reg[in]] = Ptr{Obj: id}
		fr.pc++
	case *ssa.Send, *ssa.Select:
		st.abort("channel operations unsupported")
	case *ssa.Store:
		st.store(st.get(fr, in.Addr).(Ptr), st.get(fr, in.Val))
		fr.pc++
	case *ssa.If:
		c := st.get(fr, in.Cond)
		var b bool
		switch x := c.(type) {
		case bool:
			b = x
		case *Term:
			b = st.decide(x, "if")
		default:
			st.abort("if on %T", c)
		}
		succ := blk.Succs[1]
		if b {
			succ = blk.Succs[0]
		}
		st.jump(fr, blk, succ)
	case *ssa.Jump:
		st.jump(fr, blk, blk.Succs[0])
	case *ssa.Alloc:
		elem := in.Type().(*types.Pointer).Elem()
		id := st.heap.alloc(zero(elem), elem, "")
		st.heap.objs[id].Epoch = st.Epoch
		fr.env[fr.fi.reg[in]] = Ptr{Obj: id}
		fr.pc++
	case *ssa.MakeSlice:
		n := st.concreteInt(st.get(fr, in.Len), "make len")
		c := st.concreteInt(st.get(fr, in.Cap), "make cap")
		if n < 0 || c < n {
			st.goPanicRuntime("makeslice: len out of range", "errorString")
		}
		if c > 1<<22 {
			st.abort("makeslice: cap %d too large for the engine", c)
		}
		et := in.Type().Underlying().(*types.Slice).Elem()
		arr := &Array{E: make([]Value, c)}
		z := zero(et)
		for i := range arr.E {
			arr.E[i] = copyVal(z)
		}
		id := st.heap.alloc(arr, et, "")
		st.heap.objs[id].Epoch = st.Epoch
		fr.env[fr.fi.reg[in]] = Slice{Obj: id, Len: int(n), Cap: int(c)}
		fr.pc++
	case *ssa.MakeMap:
		id := st.heap.alloc(&MapData{M: map[string]*MapEntry{}}, in.Type(), "")
		st.heap.objs[id].Epoch = st.Epoch
		fr.env[fr.fi.reg[in]] = MapRef{Obj: id}
		fr.pc++
	case *ssa.MakeClosure:
		binds := make([]Value, len(in.Bindings))
		for i, b := range in.Bindings {
			binds[i] = st.get(fr, b)
		}
		fr.env[fr.fi.reg[in]] = &FuncV{Fn: in.Fn.(*ssa.Function), Bind: binds}
		fr.pc++
	case *ssa.FieldAddr:
		p := st.get(fr, in.X).(Ptr)
		if p.Obj == 0 {
			st.goPanicRuntime("invalid memory address or nil pointer dereference", "errorString")
		}
		fr.env[fr.fi.reg[in]] = Ptr{Obj: p.Obj, Path: pathAppend(p.Path, in.Field)}
		fr.pc++
	case *ssa.Field:
		fr.env[fr.fi.reg[in]] = copyVal(st.get(fr, in.X).(*Struct).F[in.Field])
		fr.pc++
	case *ssa.IndexAddr:
		fr.env[fr.fi.reg[in]] = st.indexAddr(fr, in)
		fr.pc++
	case *ssa.Index:
		fr.env[fr.fi.reg[in]] = st.indexOp(fr, in)
		fr.pc++
	case *ssa.Lookup:
		fr.env[fr.fi.reg[in]] = st.lookup(fr, in)
		fr.pc++
	case *ssa.MapUpdate:
		m := st.get(fr, in.Map).(MapRef)
		if m.Obj == 0 {
			st.goPanicRuntime("assignment to entry in nil map", "errorString")
		}
		k := st.get(fr, in.Key)
		if _, sym := st.symKey(k); sym || st.mapData(m, false).SymKeys {
			// keys with symbolic bytes: locate an equal key first (may fork), then update
			ksFound, found := st.findEntry(st.mapData(m, false), k)
			md := st.mapData(m, true)
			if found {
				md.M[ksFound].V = copyVal(st.get(fr, in.Value))
			} else {
				ks := fmt.Sprintf("y:%d", len(md.Keys))
				if str, ok := st.concreteStr(k); ok {
					ks = "s:" + str
				}
				md.M[ks] = &MapEntry{K: k, V: copyVal(st.get(fr, in.Value))}
				md.Keys = append(md.Keys, ks)
				md.SymKeys = true
			}
		} else {
			ks := st.mapKey(k)
			md := st.mapData(m, true)
			if e, ok := md.M[ks]; ok {
				e.V = copyVal(st.get(fr, in.Value))
			} else {
				md.M[ks] = &MapEntry{K: k, V: copyVal(st.get(fr, in.Value))}
				md.Keys = append(md.Keys, ks)
			}
		}
		if st.AccessLog != nil {
			st.AccessLog.note(st, Ptr{Obj: m.Obj}, true)
		}
		fr.pc++
	case *ssa.TypeAssert:
		fr.env[fr.fi.reg[in]] = st.typeAssert(in, st.get(fr, in.X))
		fr.pc++
	case *ssa.Range:
		fr.env[fr.fi.reg[in]] = st.rangeOp(in, st.get(fr, in.X))
		fr.pc++
	case *ssa.Next:
		fr.env[fr.fi.reg[in]] = st.nextOp(in, st.get(fr, in.Iter))
		fr.pc++
	case *ssa.Phi:
		st.abort("phi reached by straight execution")
	default:
		st.abort("unsupported SSA instruction %T", instr)
	}
}

func (s *State) jump(fr *Frame, from, to *ssa.BasicBlock) {
	ti := fr.fi.bindex[to]
	nph := fr.fi.nphis[ti]
	if nph > 0 {
		edge := -1
		for i, p := range to.Preds {
			if p == from {
				edge = i
				break
			}
		}
		var tmp [8]Value
		vals := tmp[:0]
		for i := 0; i < nph; i++ {
			phi := to.Instrs[i].(*ssa.Phi)
			vals = append(vals, s.get(fr, phi.Edges[edge]))
		}
		for i := 0; i < nph; i++ {
			fr.env[fr.fi.reg[to.Instrs[i].(*ssa.Phi)]] = vals[i]
		}
	}
	fr.prev = fr.block
	fr.block = ti
	fr.pc = nph
}

// get evaluates an SSA operand.
func (s *State) get(fr *Frame, v ssa.Value) Value {
	switch x := v.(type) {
	case *ssa.Const:
		return s.constVal(x)
	case *ssa.Global:
		if id, ok := s.W.P.globalID[x]; ok {
			return Ptr{Obj: id}
		}
		s.abort("access to external global %s", x.String())
	case *ssa.Function:
		return &FuncV{Fn: x}
	case *ssa.Builtin:
		return &FuncV{Host: "builtin:" + x.Name()}
	}
	if i, ok := fr.fi.reg[v]; ok {
		return fr.env[i]
	}
	s.abort("unknown operand %T %s", v, v.Name())
	return nil
}

func (s *State) constVal(c *ssa.Const) Value {
	t := c.Type()
	if c.Value == nil {
		return zero(t)
	}
	if b, ok := t.Underlying().(*types.Basic); ok {
		switch {
		case b.Info()&types.IsBoolean != 0:
			return constant.BoolVal(c.Value)
		case b.Info()&types.IsString != 0:
			return constant.StringVal(c.Value)
		case b.Info()&types.IsUnsigned != 0:
			u, _ := constant.Uint64Val(constant.ToInt(c.Value))
			w, _ := intWidth(b)
			return normUint(u, w)
		case b.Info()&types.IsInteger != 0:
			i, _ := constant.Int64Val(constant.ToInt(c.Value))
			return i
		case b.Info()&types.IsFloat != 0:
			f, _ := constant.Float64Val(c.Value)
			if b.Kind() == types.Float32 {
				return float64(float32(f))
			}
			return f
		case b.Info()&types.IsComplex != 0:
			re, _ := constant.Float64Val(constant.Real(c.Value))
			im, _ := constant.Float64Val(constant.Imag(c.Value))
			return complex(re, im)
		}
	}
	s.abort("unsupported constant %s", c.String())
	return nil
}

func (s *State) concreteInt(v Value, what string) int64 {
	switch x := v.(type) {
	case int64:
		return x
	case uint64:
		return int64(x)
	case *Term:
		if x.IsConst() {
			return signExt(x.UVal, x.S.W)
		}
		return s.concretize(x, what)
	}
	s.abort("%s: expected integer, got %T", what, v)
	return 0
}

// concretize forks over the feasible values of a symbolic integer; used where
// the engine needs concrete sizes/indices. Bounded by Job.MaxConcretize.
func (s *State) concretize(t *Term, what string) int64 {
	w := s.W
	// enumerate feasible values (bounded)
	var vals []int64
	var excl []*Term
	max := 40
	for len(vals) <= max {
		res, m := w.Solver.Check(s.pc, excl, []*Term{s.valueProbe(t)})
		w.BranchQueries++
		if res == Unknown {
			s.abort("solver unknown while concretizing %s", what)
		}
		if res == Unsat {
			break
		}
		mv := m["!probe"]
		val := signExt(mv.U, t.S.W)
		vals = append(vals, val)
		excl = append(excl, w.Pool.Not(w.Pool.Eq(t, w.Pool.BVConst(uint64(val), t.S.W))))
	}
	if len(vals) > max {
		s.abort("unwinding bound: more than %d feasible values for %s", max, what)
	}
	if len(vals) == 0 {
		panic(skipReq{msg: "infeasible path"})
	}
	if len(vals) == 1 {
		s.assume(w.Pool.Eq(t, w.Pool.BVConst(uint64(vals[0]), t.S.W)))
		return vals[0]
	}
	s.fork("concretize "+what, len(vals), func(n *State, i int) {
		n.assume(w.Pool.Eq(t, w.Pool.BVConst(uint64(vals[i]), t.S.W)))
	})
	return 0
}

// valueProbe returns a variable constrained... (the solver's get-value works on
// arbitrary terms, so we name the probe by wrapping).
func (s *State) valueProbe(t *Term) *Term {
	return &Term{Op: "probe", S: t.S, Name: "!probe", str: t.str}
}

func (s *State) doDefer(fr *Frame, in *ssa.Defer) {
	c := in.Common()
	d := &deferred{}
	if c.IsInvoke() {
		recv := s.resolveIface(s.get(fr, c.Value))
		fn := s.lookupMethod(recv, c.Method)
		args := []Value{recv.V}
		for _, a := range c.Args {
			args = append(args, s.get(fr, a))
		}
		d.fn = &FuncV{Fn: fn}
		d.args = args
	} else {
		fv, _ := s.get(fr, c.Value).(*FuncV)
		d.fn = fv
		for _, a := range c.Args {
			d.args = append(d.args, s.get(fr, a))
		}
	}
	fr.defers = append(fr.defers, d)
}

func (s *State) lookupMethod(recv Iface, m *types.Func) *ssa.Function {
	if recv.T == nil {
		s.goPanicRuntime("invalid memory address or nil pointer dereference", "errorString")
	}
	k := methodKey{recv.T, m.Id()}
	if fn, ok := s.W.methodCache[k]; ok {
		return fn
	}
	fn := s.W.P.Prog.LookupMethod(recv.T, m.Pkg(), m.Name())
	if fn == nil {
		s.abort("method %s not found on %s", m.Name(), recv.T)
	}
	s.W.methodCache[k] = fn
	return fn
}

func (s *State) doCall(fr *Frame, c *ssa.CallCommon, dst int, isDefer bool) {
	if c.IsInvoke() {
		recv := s.resolveIface(s.get(fr, c.Value))
		if recv.T == nil {
			s.goPanicRuntime("invalid memory address or nil pointer dereference", "errorString")
		}
		if hv, ok := recv.V.(HostV); ok {
			args := make([]Value, 0, len(c.Args))
			for _, a := range c.Args {
				args = append(args, s.get(fr, a))
			}
			res := s.invokeHostMethod(hv, c.Method.Name(), args)
			s.finishCall(fr, dst, res)
			return
		}
		fn := s.lookupMethod(recv, c.Method)
		args := make([]Value, 0, len(c.Args)+1)
		args = append(args, recv.V)
		for _, a := range c.Args {
			args = append(args, s.get(fr, a))
		}
		s.callValue(&FuncV{Fn: fn}, args, dst, isDefer)
		return
	}
	if b, ok := c.Value.(*ssa.Builtin); ok {
		args := make([]Value, len(c.Args))
		for i, a := range c.Args {
			args[i] = s.get(fr, a)
		}
		res := s.builtin(fr, b, c, args)
		s.finishCall(fr, dst, res)
		return
	}
	fv, ok := s.get(fr, c.Value).(*FuncV)
	if !ok {
		s.abort("call of non-function %T", s.get(fr, c.Value))
	}
	args := make([]Value, len(c.Args))
	for i, a := range c.Args {
		args[i] = s.get(fr, a)
	}
	s.callValue(fv, args, dst, isDefer)
}

var _ = token.ADD
