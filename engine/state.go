package engine

import (
	"fmt"
	"go/types"
	"sort"

	"golang.org/x/tools/go/ssa"
)

type heapToken struct{ _ int }

// MapData is the payload of a map object. Iteration order is decided by the
// engine's MapOrder policy, not by Keys order.
type MapData struct {
	Keys    []string // canonical keys in insertion order
	M       map[string]*MapEntry
	SymKeys bool // some key has symbolic bytes: lookups compare keys one by one
}

type MapEntry struct{ K, V Value }

// Obj is a heap object.
type Obj struct {
	V     Value
	T     types.Type
	owner *heapToken
	Tag   string
	// document bookkeeping
	Doc  *DocNode
	Init []Value // initial cell values of a document container (for the frame condition)
	// pool bookkeeping
	Poison bool
	Epoch  int // allocation epoch (see State.Epoch)
}

type Heap struct {
	objs []*Obj
	tok  *heapToken
}

func newHeap() *Heap {
	return &Heap{objs: []*Obj{nil}, tok: &heapToken{}}
}

func (h *Heap) clone() *Heap {
	n := &Heap{objs: make([]*Obj, len(h.objs), len(h.objs)+64), tok: &heapToken{}}
	copy(n.objs, h.objs)
	return n
}

func (h *Heap) alloc(v Value, t types.Type, tag string) int {
	o := &Obj{V: v, T: t, owner: h.tok, Tag: tag}
	h.objs = append(h.objs, o)
	return len(h.objs) - 1
}

func (h *Heap) get(id int) *Obj { return h.objs[id] }

// own returns a privately owned (mutable) version of object id.
func (h *Heap) own(id int) *Obj {
	o := h.objs[id]
	if o.owner == h.tok {
		return o
	}
	n := *o
	n.owner = h.tok
	switch x := o.V.(type) {
	case *MapData:
		md := &MapData{Keys: append([]string(nil), x.Keys...), M: make(map[string]*MapEntry, len(x.M)), SymKeys: x.SymKeys}
		for k, e := range x.M {
			ce := *e
			ce.V = copyVal(e.V)
			md.M[k] = &ce
		}
		n.V = md
	default:
		n.V = copyVal(o.V)
	}
	h.objs[id] = &n
	return &n
}

type deferred struct {
	fn   *FuncV
	args []Value
	// for invoke-mode defers
	recv   Value
	method *types.Func
}

// Frame is one activation record.
type Frame struct {
	fi      *fnInfo
	env     []Value
	block   int
	prev    int
	pc      int
	defers  []*deferred
	dst     int  // register in the caller that receives the result; -1 none
	isDefer bool // called as a deferred call by the unwinder/RunDefers
	// unwinding state
	panicking bool // a panic is propagating through this frame
	nested    bool // boundary of a nested synchronous call (callNested)
	retVal    Value
	returned  bool
}

func (f *Frame) clone() *Frame {
	n := *f
	n.env = make([]Value, len(f.env))
	copy(n.env, f.env)
	if len(f.defers) > 0 {
		n.defers = make([]*deferred, len(f.defers))
		copy(n.defers, f.defers)
	}
	return &n
}

// Choice records one fork decision, for reports and replay fixtures.
type Choice struct {
	Label string
	Alt   int
	N     int
}

type Violation struct {
	Label  string
	Detail string
	Model  map[string]ModelVal
}

type PathStatus int

const (
	PathRunning PathStatus = iota
	PathDone
	PathSkipped   // an assumption failed
	PathAborted   // inconclusive (unsupported construct, solver unknown, bound hit)
	PathPanicked  // uncaught Go panic escaped the harness
	PathViolation // an assertion failed (still PathDone semantics)
)

// State is one symbolic execution state.
type State struct {
	heap    *Heap
	frames  []*Frame
	pc      []*Term
	decided map[*Term]bool
	docRes  map[int]Value // doc node id -> resolved concrete-shaped value
	choices []Choice

	locks map[int]bool     // mutex object id -> held
	pools map[int][]Value  // pool object id -> free list
	holes map[string]Value // numeral text -> symbolic value

	panicVal    Value
	panicSet    bool
	Status      PathStatus
	AbortMsg    string
	Viol        []Violation
	Fuel        int
	Depth       int
	Log         []string          // harness log lines (zzLog)
	Out         map[string]string // harness outputs
	Epoch       int
	W           *Worker
	AccessLog   *AccessLog
	Tree        map[int]bool // objects reachable from the parsed function (C05 frame)
	treeSnap    map[int]string
	globSnap    map[int]string
	poisonHits  []string
	violExtra   []*Term
	outVals     []outVal
	reApps      []reApp
	owned       map[int]bool // objects owned through sync.Pool.Get
	bdom        map[*Term]byteSet
	twinLeaves  []twinLeaf
	Approx      bool // an over-approximating stub was used on this path
	NumOverflow bool // a json.Number leaf of this document may spell an out-of-range number
	steps       int
}

func (s *State) clone() *State {
	n := *s
	n.heap = s.heap.clone()
	n.frames = make([]*Frame, len(s.frames))
	for i, f := range s.frames {
		n.frames[i] = f.clone()
	}
	n.pc = s.pc[:len(s.pc):len(s.pc)]
	n.decided = make(map[*Term]bool, len(s.decided)+4)
	for k, v := range s.decided {
		n.decided[k] = v
	}
	n.docRes = make(map[int]Value, len(s.docRes)+4)
	for k, v := range s.docRes {
		n.docRes[k] = v
	}
	n.choices = s.choices[:len(s.choices):len(s.choices)]
	n.locks = make(map[int]bool, len(s.locks))
	for k, v := range s.locks {
		n.locks[k] = v
	}
	n.pools = make(map[int][]Value, len(s.pools))
	for k, v := range s.pools {
		n.pools[k] = append([]Value(nil), v...)
	}
	n.holes = make(map[string]Value, len(s.holes))
	for k, v := range s.holes {
		n.holes[k] = v
	}
	n.Viol = append([]Violation(nil), s.Viol...)
	n.Log = s.Log[:len(s.Log):len(s.Log)]
	n.Out = make(map[string]string, len(s.Out))
	for k, v := range s.Out {
		n.Out[k] = v
	}
	if s.AccessLog != nil {
		n.AccessLog = s.AccessLog.clone()
	}
	if s.bdom != nil {
		n.bdom = make(map[*Term]byteSet, len(s.bdom))
		for k, v := range s.bdom {
			n.bdom[k] = v
		}
	}
	n.owned = make(map[int]bool, len(s.owned))
	for k, v := range s.owned {
		n.owned[k] = v
	}
	if s.Tree != nil {
		n.Tree = make(map[int]bool, len(s.Tree))
		for k, v := range s.Tree {
			n.Tree[k] = v
		}
	}
	return &n
}

// ---- control-flow requests raised (as Go panics) from inside a step ----

type forkReq struct {
	label string
	n     int
	apply func(s *State, i int)
}

type abortReq struct{ msg string }
type skipReq struct{ msg string }

func (s *State) fork(label string, n int, apply func(*State, int)) {
	if s.W.inNested > 0 {
		s.abort("fork (%s) inside a nested synchronous call", label)
	}
	panic(forkReq{label: label, n: n, apply: apply})
}

func (s *State) abort(format string, args ...interface{}) {
	panic(abortReq{msg: fmt.Sprintf(format, args...)})
}

// assume adds a constraint to the path condition.
func (s *State) assume(c *Term) {
	if c.IsConst() {
		if !c.BVal {
			panic(skipReq{msg: "assume false"})
		}
		return
	}
	s.pc = append(s.pc, c)
	s.decided[c] = true
	s.decided[s.W.Pool.Not(c)] = false
	s.noteByteConstraint(c)
}

// pcRelates reports whether the path condition holds a constraint that mentions
// byte variable v together with something the per-byte domain cannot see
// (another variable, or an operator outside the domain evaluator).
func (s *State) pcRelates(v *Term) bool {
	for _, c := range s.pc {
		if _, single := singleByteVar(c, s.W.sbvCache); single {
			continue
		}
		var vs []*Term
		collectVars(c, map[*Term]bool{}, &vs)
		for _, x := range vs {
			if x == v {
				return true
			}
		}
	}
	return false
}

// decide resolves a symbolic Boolean, forking when both outcomes are feasible.
func (s *State) decide(c *Term, label string) bool {
	if c.IsConst() {
		return c.BVal
	}
	if v, ok := s.decided[c]; ok {
		return v
	}
	w := s.W
	if v, ok := singleByteVar(c, w.sbvCache); ok {
		t, f := s.splitByte(c, v)
		w.DomainDecisions++
		// the solver stays the authority: re-check a seeded fraction of the
		// domain verdicts (all of them when the rate is 1)
		if w.recheckDue() {
			w.DomainRechecks++
			rt, _ := w.Solver.Check(s.pc, []*Term{c}, nil)
			rf, _ := w.Solver.Check(s.pc, []*Term{w.Pool.Not(c)}, nil)
			if rt == Unknown || rf == Unknown {
				s.abort("solver unknown while re-checking a byte-domain verdict on %s", c.str)
			}
			// The per-byte domain ignores constraints that relate several bytes, so
			// it may call a side feasible that the full path condition excludes
			// (the path would be dropped at its final sat check anyway): the
			// solver's verdict is adopted. The converse - the domain excludes a side
			// the solver can satisfy - would lose behaviour and is a disagreement.
			if (rt == Sat && t.empty()) || (rf == Sat && f.empty()) {
				w.DomainDisagreements++
				s.abort("byte-domain verdict disagrees with the solver on %s", c.str)
			}
			if (rt == Unsat && !t.empty()) || (rf == Unsat && !f.empty()) {
				if !s.pcRelates(v) {
					// no multi-byte constraint can explain it: the domain evaluation itself is wrong
					w.DomainDisagreements++
					s.abort("byte-domain verdict disagrees with the solver on %s", c.str)
				}
				w.DomainRefinements++
				if rt == Unsat {
					t = byteSet{}
				}
				if rf == Unsat {
					f = byteSet{}
				}
			}
		}
		switch {
		case t.empty() && f.empty():
			panic(skipReq{msg: "infeasible path (empty byte domain)"})
		case t.empty():
			s.decided[c] = false
			return false
		case f.empty():
			s.decided[c] = true
			return true
		}
		s.fork(label, 2, func(n *State, i int) {
			if i == 0 {
				n.assume(c)
			} else {
				n.assume(w.Pool.Not(c))
			}
		})
		return false
	}
	w.BranchQueries++
	rt, _ := w.Solver.Check(s.pc, []*Term{c}, nil)
	if rt == Unknown {
		s.abort("solver unknown on branch %s", label)
	}
	if rt == Unsat {
		s.decided[c] = false
		return false
	}
	rf, _ := w.Solver.Check(s.pc, []*Term{w.Pool.Not(c)}, nil)
	if rf == Unknown {
		s.abort("solver unknown on branch %s", label)
	}
	if rf == Unsat {
		s.decided[c] = true
		return true
	}
	s.fork(label, 2, func(n *State, i int) {
		if i == 0 {
			n.assume(c)
		} else {
			n.assume(w.Pool.Not(c))
		}
	})
	return false
}

// ---- memory access ----

func (s *State) navigate(root Value, path string) Value {
	v := root
	for k := 0; k+2 < len(path); k += 3 {
		i := int(path[k])<<16 | int(path[k+1])<<8 | int(path[k+2])
		switch x := v.(type) {
		case *Struct:
			v = x.F[i]
		case *Array:
			if i >= len(x.E) {
				s.abort("navigate: index %d out of array %d", i, len(x.E))
			}
			v = x.E[i]
		default:
			s.abort("navigate: cannot index %T", v)
		}
	}
	return v
}

func (s *State) load(p Ptr) Value {
	if p.Obj == 0 {
		s.goPanicRuntime("invalid memory address or nil pointer dereference", "errorString")
	}
	o := s.heap.get(p.Obj)
	if s.AccessLog != nil {
		s.AccessLog.note(s, p, false)
	}
	if o.Poison {
		s.notePoison(p, o)
	}
	return copyVal(s.navigate(o.V, p.Path))
}

func (s *State) store(p Ptr, v Value) {
	if p.Obj == 0 {
		s.goPanicRuntime("invalid memory address or nil pointer dereference", "errorString")
	}
	if s.AccessLog != nil {
		s.AccessLog.note(s, p, true)
	}
	o := s.heap.own(p.Obj)
	v = copyVal(v)
	if p.Path == "" {
		o.V = v
		return
	}
	par := s.navigate(o.V, p.Path[:len(p.Path)-3])
	k := len(p.Path) - 3
	i := int(p.Path[k])<<16 | int(p.Path[k+1])<<8 | int(p.Path[k+2])
	switch x := par.(type) {
	case *Struct:
		x.F[i] = v
	case *Array:
		x.E[i] = v
	default:
		s.abort("store: cannot index %T", par)
	}
}

func (s *State) mapData(m MapRef, write bool) *MapData {
	if m.Obj == 0 {
		return nil
	}
	var o *Obj
	if write {
		o = s.heap.own(m.Obj)
	} else {
		o = s.heap.get(m.Obj)
	}
	return o.V.(*MapData)
}

// mapKey canonicalises a concrete map key.
func (s *State) mapKey(k Value) string {
	switch x := k.(type) {
	case string:
		return "s:" + x
	case int64:
		return fmt.Sprintf("i:%d", x)
	case uint64:
		return fmt.Sprintf("u:%d", x)
	case bool:
		return fmt.Sprintf("b:%v", x)
	case *Struct:
		out := "{"
		for _, f := range x.F {
			out += s.mapKey(f) + ","
		}
		return out + "}"
	case Iface:
		if x.T == nil {
			return "nil"
		}
		return "I:" + reflectName(x.T) + ":" + s.mapKey(x.V)
	case Ptr:
		return fmt.Sprintf("p:%d:%x", x.Obj, x.Path)
	case *SymStr:
		if str, ok := s.concreteStr(x); ok {
			return "s:" + str
		}
	}
	s.abort("unsupported (symbolic?) map key %T", k)
	return ""
}

func sortedKeys(md *MapData) []string {
	ks := append([]string(nil), md.Keys...)
	sort.Strings(ks)
	return ks
}

// fnInfo caches per-function numbering of SSA values.
type fnInfo struct {
	fn     *ssa.Function
	reg    map[ssa.Value]int
	nregs  int
	nphis  []int // per block: number of leading phi instructions
	bindex map[*ssa.BasicBlock]int
}

func buildFnInfo(fn *ssa.Function) *fnInfo {
	fi := &fnInfo{fn: fn, reg: map[ssa.Value]int{}, bindex: map[*ssa.BasicBlock]int{}}
	n := 0
	for _, p := range fn.Params {
		fi.reg[p] = n
		n++
	}
	for _, p := range fn.FreeVars {
		fi.reg[p] = n
		n++
	}
	fi.nphis = make([]int, len(fn.Blocks))
	for bi, b := range fn.Blocks {
		fi.bindex[b] = bi
		phis := 0
		for _, in := range b.Instrs {
			if v, ok := in.(ssa.Value); ok {
				fi.reg[v] = n
				n++
			}
			if _, ok := in.(*ssa.Phi); ok {
				phis++
			}
		}
		fi.nphis[bi] = phis
	}
	fi.nregs = n
	return fi
}
