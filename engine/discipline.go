package engine

import (
	"fmt"
	"go/types"
	"sort"
	"strings"
)

// AccessLog records heap accesses for the conflict-freedom argument (C06) and
// the tree frame condition (C05).
type AccessLog struct {
	On       bool
	Writes   map[int]string // object id -> first write description (objects that pre-existed the window)
	Reads    map[int]bool
	Since    int            // objects with id >= Since were allocated inside the window
	Unlocked map[int]string // pre-existing objects written without the mutex / without pool ownership
}

func newAccessLog() *AccessLog {
	return &AccessLog{Writes: map[int]string{}, Reads: map[int]bool{}, Unlocked: map[int]string{}}
}

func (a *AccessLog) clone() *AccessLog {
	n := &AccessLog{On: a.On, Since: a.Since, Writes: make(map[int]string, len(a.Writes)), Reads: make(map[int]bool, len(a.Reads)), Unlocked: make(map[int]string, len(a.Unlocked))}
	for k, v := range a.Writes {
		n.Writes[k] = v
	}
	for k, v := range a.Reads {
		n.Reads[k] = v
	}
	for k, v := range a.Unlocked {
		n.Unlocked[k] = v
	}
	return n
}

func (a *AccessLog) note(s *State, p Ptr, write bool) {
	if !a.On || p.Obj >= a.Since {
		return
	}
	o := s.heap.get(p.Obj)
	if strings.HasPrefix(o.Tag, "global:zz") {
		return // harness bookkeeping (call logs)
	}
	locked := len(s.locks) > 0
	if write {
		if _, ok := a.Writes[p.Obj]; !ok {
			a.Writes[p.Obj] = s.where()
		}
		if !locked && !s.owned[p.Obj] {
			if _, ok := a.Unlocked[p.Obj]; !ok {
				what := o.Tag
				if what == "" && o.T != nil {
					what = o.T.String()
				}
				a.Unlocked[p.Obj] = "write to shared " + what + s.where()
			}
		}
		return
	}
	a.Reads[p.Obj] = true
	if !locked && o.Tag == "global:parser" {
		if _, ok := a.Unlocked[p.Obj]; !ok {
			a.Unlocked[p.Obj] = "read of the global parser without the mutex" + s.where()
		}
	}
}

// ---- pool poisoning ----

func (s *State) reachableFrom(v Value, seen map[int]bool) {
	switch x := v.(type) {
	case Ptr:
		s.reachObj(x.Obj, seen)
	case Slice:
		s.reachObj(x.Obj, seen)
	case MapRef:
		s.reachObj(x.Obj, seen)
	case Iface:
		if x.T != nil {
			s.reachableFrom(x.V, seen)
		}
	case *Struct:
		for _, f := range x.F {
			s.reachableFrom(f, seen)
		}
	case *Array:
		for _, f := range x.E {
			s.reachableFrom(f, seen)
		}
	case *FuncV:
		if x != nil {
			for _, b := range x.Bind {
				s.reachableFrom(b, seen)
			}
		}
	case Tuple:
		for _, f := range x {
			s.reachableFrom(f, seen)
		}
	}
}

func (s *State) reachObj(id int, seen map[int]bool) {
	if id == 0 || seen[id] {
		return
	}
	seen[id] = true
	o := s.heap.get(id)
	switch v := o.V.(type) {
	case *MapData:
		for _, e := range v.M {
			s.reachableFrom(e.V, seen)
		}
	default:
		s.reachableFrom(o.V, seen)
	}
}

// poison marks the pooled object and every heap object reachable from it
// (e.g. the backing array of a pooled buffer): after Put none of it may be
// read by the code that gave it away.
func (s *State) poison(v Value) { s.setPoison(v, true) }

func (s *State) unpoison(v Value) { s.setPoison(v, false) }

func (s *State) setPoison(v Value, on bool) {
	for id := range s.ownedBuffers(v) {
		o := s.heap.get(id)
		if o.Doc != nil || strings.HasPrefix(o.Tag, "global:") || o.Tag == "json" {
			continue
		}
		if o.Poison != on {
			s.heap.own(id).Poison = on
		}
	}
}

// ownedBuffers: the pooled object and the buffers it owns - backing arrays of
// its slice fields, pointees of its pointer fields - but not what the
// elements of those buffers refer to (stale interface values in a truncated
// result buffer still point into documents and results that belong to callers).
func (s *State) ownedBuffers(v Value) map[int]bool {
	seen := map[int]bool{}
	var visitVal func(x Value, depth int)
	var visitObj func(id int, depth int)
	visitVal = func(x Value, depth int) {
		switch y := x.(type) {
		case Iface:
			if y.T != nil && depth == 0 {
				visitVal(y.V, depth)
			}
		case Ptr:
			visitObj(y.Obj, depth+1)
		case Slice:
			if y.Obj != 0 {
				seen[y.Obj] = true // the backing array itself; its elements are not followed
			}
		case *Struct:
			for _, f := range y.F {
				if _, isIface := f.(Iface); isIface {
					continue
				}
				visitVal(f, depth)
			}
		}
	}
	visitObj = func(id int, depth int) {
		if id == 0 || seen[id] || depth > 3 {
			return
		}
		seen[id] = true
		o := s.heap.get(id)
		if _, isMap := o.V.(*MapData); isMap {
			return
		}
		visitVal(o.V, depth)
	}
	visitVal(v, 0)
	return seen
}

func (s *State) notePoison(p Ptr, o *Obj) {
	// recorded, and turned into an assertion only by harnesses that ask (zzPoisonClean)
	if len(s.poisonHits) < 4 {
		s.poisonHits = append(s.poisonHits[:len(s.poisonHits):len(s.poisonHits)], "read of a pooled object after it was Put"+s.where())
	}
}

func zzPoisonClean(s *State, a []Value) Value {
	if len(s.poisonHits) > 0 {
		s.Log = append(s.Log, "discipline: "+s.poisonHits[0])
		return false
	}
	return true
}

// ---- epochs / freshness ----

func zzEpoch(s *State, a []Value) Value {
	s.Epoch++
	return int64(s.Epoch)
}

// zzFresh(v, epoch): every heap object directly backing v (slice array) was
// allocated at or after the given epoch and is not reachable from globals or pools.
func zzFresh(s *State, a []Value) Value {
	ep := int(s.concreteInt(a[1], "epoch"))
	var obj int
	switch x := a[0].(type) {
	case Slice:
		obj = x.Obj
	case Iface:
		if sl, ok := x.V.(Slice); ok {
			obj = sl.Obj
		}
	}
	if obj == 0 {
		return true
	}
	if s.heap.get(obj).Epoch < ep {
		return false
	}
	seen := map[int]bool{}
	for _, id := range s.W.P.globalID {
		s.reachObj(id, seen)
	}
	for _, free := range s.pools {
		for _, v := range free {
			s.reachableFrom(v, seen)
		}
	}
	return !seen[obj]
}

// ---- tree frame condition (C05) ----

func zzTreeMark(s *State, a []Value) Value {
	seen := map[int]bool{}
	s.reachableFrom(a[0], seen)
	// globals that evaluation is allowed to use as scratch are excluded: pools and their contents
	s.Tree = seen
	s.treeSnap = map[int]string{}
	for id := range seen {
		s.treeSnap[id] = s.objDigest(id)
	}
	return nil
}

func (s *State) objDigest(id int) string {
	o := s.heap.get(id)
	switch v := o.V.(type) {
	case *MapData:
		out := "map{"
		for _, k := range sortedKeys(v) {
			out += k + ":" + show(v.M[k].V) + ","
		}
		return out + "}"
	case *Array:
		out := "["
		for _, e := range v.E {
			out += show(e) + ","
		}
		return out + "]"
	}
	return show(o.V)
}

func zzTreeUnchanged(s *State, a []Value) Value {
	for id, d := range s.treeSnap {
		if s.heap.get(id).Doc != nil {
			continue
		}
		if s.objDigest(id) != d {
			s.Log = append(s.Log, fmt.Sprintf("treediff: object %d (%s) %s -> %s", id, s.heap.get(id).T, d, s.objDigest(id)))
			return false
		}
	}
	return true
}

// ---- access sets (C06) ----

func zzAccessStart(s *State, a []Value) Value {
	if s.AccessLog == nil {
		s.AccessLog = newAccessLog()
	}
	s.AccessLog.On = true
	s.AccessLog.Since = len(s.heap.objs)
	s.AccessLog.Writes = map[int]string{}
	s.AccessLog.Reads = map[int]bool{}
	return nil
}

func zzAccessCheck(s *State, a []Value) Value {
	if s.AccessLog == nil {
		return true
	}
	s.AccessLog.On = false
	if len(s.AccessLog.Unlocked) == 0 {
		return true
	}
	var ids []int
	for id := range s.AccessLog.Unlocked {
		ids = append(ids, id)
	}
	sort.Ints(ids)
	for _, id := range ids {
		s.Log = append(s.Log, "unowned-access: "+s.AccessLog.Unlocked[id])
	}
	s.Out["access"] = s.AccessLog.Unlocked[ids[0]]
	return false
}

func zzIsolated(s *State, a []Value) Value {
	fromF := map[int]bool{}
	s.reachableFrom(a[0], fromF)
	fromG := map[int]bool{}
	if g := s.W.P.Pkg.Var("parser"); g != nil {
		s.reachObj(s.W.P.globalID[g], fromG)
	}
	for id := range fromF {
		if fromG[id] {
			s.Log = append(s.Log, fmt.Sprintf("shared object %d (%v) reachable from the parsed function and from the global parser", id, s.heap.get(id).T))
			return false
		}
	}
	return true
}

// zzParserClean: the global parser's embedded action state is the zero value.
func zzParserClean(s *State, a []Value) Value {
	g := s.W.P.Pkg.Var("parser")
	if g == nil {
		return true
	}
	id := s.W.P.globalID[g]
	o := s.heap.get(id)
	st, ok := o.V.(*Struct)
	if !ok {
		return true
	}
	elem := g.Type().(*types.Pointer).Elem().Underlying().(*types.Struct)
	for i := 0; i < elem.NumFields(); i++ {
		if elem.Field(i).Name() == "jsonPathParser" {
			z := zero(elem.Field(i).Type())
			if show(st.F[i]) != show(z) {
				s.Log = append(s.Log, "parser state not reset: "+show(st.F[i]))
				return false
			}
		}
	}
	return true
}

func zzOpaqueInit(s *State, a []Value) Value {
	sl, ok := a[0].(Slice)
	if !ok {
		return nil
	}
	s.W.Job.opaque = nil
	for _, e := range s.sliceElems(sl) {
		s.W.Job.opaque = append(s.W.Job.opaque, s.resolveIface(e))
	}
	return nil
}

// ---- package-level constants must stay constant (C05/C06) ----

func init() {
	intrinsics["zzGlobalsMark"] = zzGlobalsMark
	intrinsics["zzGlobalsUnchanged"] = zzGlobalsUnchanged
}

func (s *State) constGlobalObjs() map[int]bool {
	seen := map[int]bool{}
	for g, id := range s.W.P.globalID {
		name := g.Name()
		if strings.HasPrefix(name, "zz") || name == "parser" || name == "parseMutex" || strings.HasSuffix(name, "SyncPool") || name == "init$guard" {
			continue
		}
		s.reachObj(id, seen)
	}
	return seen
}

func zzGlobalsMark(s *State, a []Value) Value {
	s.globSnap = map[int]string{}
	for id := range s.constGlobalObjs() {
		s.globSnap[id] = s.objDigest(id)
	}
	return nil
}

func zzGlobalsUnchanged(s *State, a []Value) Value {
	for id, d := range s.globSnap {
		if s.objDigest(id) != d {
			s.Log = append(s.Log, fmt.Sprintf("global state changed: object %d (%s) %s -> %s", id, s.heap.get(id).Tag, d, s.objDigest(id)))
			return false
		}
	}
	return true
}
