// Package engine is symgo: a symbolic interpreter for go/ssa.
package engine

import (
	"fmt"
	"go/types"
	"math/bits"

	"golang.org/x/tools/go/ssa"
)

// Document node kinds (bit positions).
const (
	KNil = 1 << iota
	KBool
	KFloat
	KString
	KNumber
	KMap
	KArray
	KOpaque0 // opaque prototype i has bit KOpaque0<<i
)

// DocCfg bounds a symbolic document.
type DocCfg struct {
	Depth     int      // container nesting levels available below the root
	MaxLen    int      // arrays have 0..MaxLen elements
	Keys      []string // key alphabet of objects
	Scalars   uint32   // allowed scalar kinds (KNil|KBool|KFloat|KString|KNumber|opaque bits)
	RootKinds uint32   // optional: restrict the root's kinds (0 = no restriction)
	MinLen    int
	// NumOverflow lets a json.Number leaf spell a number outside the float64
	// range (such as 1e400, which a UseNumber decoder accepts): its value is
	// then +Inf or -Inf and Number.Float64 reports a range error.
	NumOverflow bool
	// Optional per-level narrowing, indexed by the node's remaining depth
	// (index 1 = deepest containers). Missing entries fall back to Keys/MaxLen.
	KeysAt   map[int][]string
	MaxLenAt map[int]int
}

func (c *DocCfg) keysAt(depth int) []string {
	if k, ok := c.KeysAt[depth]; ok {
		return k
	}
	return c.Keys
}

func (c *DocCfg) maxLenAt(depth int) int {
	if k, ok := c.MaxLenAt[depth]; ok {
		return k
	}
	return c.MaxLen
}

// DocNode is one lazily resolved node of a symbolic document.
type DocNode struct {
	ID    int
	Name  string
	Depth int // remaining container depth
	Cfg   *DocCfg
	Mask  uint32 // initial candidate kinds
}

type narrowed struct{ mask uint32 }

func (w *Worker) docNode(name string, depth int, cfg *DocCfg, mask uint32) *DocNode {
	if n, ok := w.Job.nodes[name]; ok {
		return n
	}
	if mask == 0 {
		mask = cfg.Scalars
		if depth > 0 {
			mask |= KMap | KArray
		}
	}
	n := &DocNode{ID: len(w.Job.nodes) + 1, Name: name, Depth: depth, Cfg: cfg, Mask: mask}
	w.Job.nodes[name] = n
	w.Job.nodeList = append(w.Job.nodeList, n)
	return n
}

func (s *State) candidates(n *DocNode) (uint32, bool) {
	switch r := s.docRes[n.ID].(type) {
	case nil:
		return n.Mask, false
	case narrowed:
		return r.mask, false
	case Iface:
		return 0, true
	}
	return 0, false
}

// kindMaskOf maps a Go type to the document kinds having that dynamic type.
func (s *State) kindMaskOf(t types.Type) uint32 {
	p := s.W.P
	w := s.W
	var m uint32
	switch {
	case w.identical(t, p.tMap):
		m = KMap
	case w.identical(t, p.tSlice):
		m = KArray
	case w.identical(t, types.Typ[types.Bool]):
		m = KBool
	case w.identical(t, types.Typ[types.Float64]):
		m = KFloat
	case w.identical(t, types.Typ[types.String]):
		m = KString
	case p.tNumber != nil && w.identical(t, p.tNumber):
		m = KNumber
	}
	for i, o := range w.Job.opaque {
		if w.identical(t, o.T) {
			m |= KOpaque0 << uint(i)
		}
	}
	return m
}

func (s *State) kindType(bit uint32) types.Type {
	p := s.W.P
	switch bit {
	case KNil:
		return nil
	case KBool:
		return types.Typ[types.Bool]
	case KFloat:
		return types.Typ[types.Float64]
	case KString:
		return types.Typ[types.String]
	case KNumber:
		return p.tNumber
	case KMap:
		return p.tMap
	case KArray:
		return p.tSlice
	}
	i := bits.TrailingZeros32(bit / KOpaque0)
	return s.W.Job.opaque[i].T
}

// narrowTo decides whether the node's kind lies in mask, forking if both are possible.
func (s *State) narrowTo(n *DocNode, mask uint32) bool {
	cur, resolved := s.candidates(n)
	if resolved {
		r := s.docRes[n.ID].(Iface)
		if r.T == nil {
			return mask&KNil != 0
		}
		return s.kindMaskOf(r.T)&mask != 0
	}
	in, out := cur&mask, cur&^mask
	if in == 0 {
		return false
	}
	if out == 0 {
		return true
	}
	s.fork("kind:"+n.Name, 2, func(c *State, i int) {
		if i == 0 {
			c.docRes[n.ID] = narrowed{mask: in}
		} else {
			c.docRes[n.ID] = narrowed{mask: out}
		}
	})
	return false
}

// kindOnly narrows the node to a single kind and returns its dynamic type.
func (s *State) kindOnly(n *DocNode) types.Type {
	cur, resolved := s.candidates(n)
	if resolved {
		return s.docRes[n.ID].(Iface).T
	}
	if bits.OnesCount32(cur) == 1 {
		return s.kindType(cur)
	}
	var alts []uint32
	for b := uint32(1); b != 0 && b <= cur; b <<= 1 {
		if cur&b != 0 {
			alts = append(alts, b)
		}
	}
	s.fork("kind:"+n.Name, len(alts), func(c *State, i int) {
		c.docRes[n.ID] = narrowed{mask: alts[i]}
	})
	return nil
}

type docAlt struct {
	kind uint32
	sub  int // key subset bitmask or array length
}

// resolveNode fully materialises a node (forking over remaining kinds and shapes).
func (s *State) resolveNode(n *DocNode) Iface {
	cur, resolved := s.candidates(n)
	if resolved {
		return s.docRes[n.ID].(Iface)
	}
	var alts []docAlt
	for b := uint32(1); b != 0 && b <= cur; b <<= 1 {
		if cur&b == 0 {
			continue
		}
		switch b {
		case KMap:
			for sub := 0; sub < 1<<uint(len(n.Cfg.keysAt(n.Depth))); sub++ {
				alts = append(alts, docAlt{b, sub})
			}
		case KArray:
			for l := n.Cfg.MinLen; l <= n.Cfg.maxLenAt(n.Depth); l++ {
				alts = append(alts, docAlt{b, l})
			}
		default:
			alts = append(alts, docAlt{b, 0})
		}
	}
	if len(alts) == 0 {
		panic(skipReq{msg: "document node without candidates"})
	}
	if len(alts) == 1 {
		v := s.materialise(n, alts[0])
		s.docRes[n.ID] = v
		return v
	}
	s.fork("doc:"+n.Name, len(alts), func(c *State, i int) {
		c.docRes[n.ID] = c.materialise(n, alts[i])
	})
	return Iface{}
}

func (s *State) materialise(n *DocNode, a docAlt) Iface {
	w := s.W
	p := w.Pool
	switch a.kind {
	case KNil:
		return Iface{}
	case KBool:
		return Iface{T: types.Typ[types.Bool], V: p.Var(n.Name+"!b", SortBool)}
	case KFloat:
		return Iface{T: types.Typ[types.Float64], V: w.floatVar(n.Name + "!f")}
	case KString:
		return Iface{T: types.Typ[types.String], V: &AbsStr{Id: p.Var(n.Name+"!s", SortInt)}}
	case KNumber:
		id := p.Var(n.Name+"!n", SortInt)
		nv := w.numVal(id)
		s.assume(p.Not(p.App("fp.isNaN", SortBool, nv)))
		if n.Cfg.NumOverflow {
			s.NumOverflow = true
		} else {
			s.assume(p.Not(p.App("fp.isInfinite", SortBool, nv)))
		}
		return Iface{T: w.P.tNumber, V: &AbsStr{Id: id}}
	case KMap:
		md := &MapData{M: map[string]*MapEntry{}}
		var init []Value
		for i, k := range n.Cfg.keysAt(n.Depth) {
			if a.sub&(1<<uint(i)) == 0 {
				continue
			}
			child := &SymIface{Node: w.docNode(n.Name+"."+k, n.Depth-1, n.Cfg, 0)}
			ks := "s:" + k
			md.M[ks] = &MapEntry{K: k, V: child}
			md.Keys = append(md.Keys, ks)
			init = append(init, k, child)
		}
		id := s.heap.alloc(md, w.P.tMap, "doc:"+n.Name)
		o := s.heap.objs[id]
		o.Doc = n
		o.Init = init
		return Iface{T: w.P.tMap, V: MapRef{Obj: id}}
	case KArray:
		arr := &Array{E: make([]Value, a.sub)}
		init := make([]Value, a.sub)
		for i := range arr.E {
			child := &SymIface{Node: w.docNode(fmt.Sprintf("%s[%d]", n.Name, i), n.Depth-1, n.Cfg, 0)}
			arr.E[i] = child
			init[i] = child
		}
		id := s.heap.alloc(arr, w.P.tIface, "doc:"+n.Name)
		o := s.heap.objs[id]
		o.Doc = n
		o.Init = init
		return Iface{T: w.P.tSlice, V: Slice{Obj: id, Len: a.sub, Cap: a.sub}}
	}
	i := bits.TrailingZeros32(a.kind / KOpaque0)
	return w.Job.opaque[i]
}

// floatVar makes a symbolic float64 whose bits are a BV64 variable (models are
// then exact bit patterns).
func (w *Worker) floatVar(name string) *Term {
	bv := w.Pool.Var(name, BV(64))
	return w.Pool.App("(_ to_fp 11 53)", SortFP, bv)
}

// internStr maps a concrete string to a distinct Int constant.
func (s *State) internStr(str string) *Term {
	w := s.W
	if id, ok := w.Job.strIDs[str]; ok {
		t := w.Pool.IntConst(id)
		for name, re := range w.Job.regexUFs {
			s.regexAxioms(name, re)
		}
		return t
	}
	defer func() {
		for name, re := range w.Job.regexUFs {
			s.regexAxioms(name, re)
		}
	}()
	return w.internStrRaw(str)
}

func (w *Worker) internStrRaw(str string) *Term {
	if id, ok := w.Job.strIDs[str]; ok {
		return w.Pool.IntConst(id)
	}
	id := int64(len(w.Job.strIDs) + 1)
	w.Job.strIDs[str] = id
	w.Job.strByID[id] = str
	return w.Pool.IntConst(id)
}

func (s *State) resolveIface(v Value) Iface {
	switch x := v.(type) {
	case Iface:
		return x
	case *SymIface:
		return s.resolveNode(x.Node)
	case nil:
		return Iface{}
	}
	s.abort("resolveIface: %T is not an interface value", v)
	return Iface{}
}

func (s *State) symIfaceEqConcrete(sx *SymIface, y Iface) (Value, bool) {
	if _, resolved := s.candidates(sx.Node); resolved {
		return nil, false
	}
	var mask uint32
	if y.T == nil {
		mask = KNil
	} else {
		mask = s.kindMaskOf(y.T)
	}
	if !s.narrowTo(sx.Node, mask) {
		return false, true
	}
	if y.T == nil {
		return true, true
	}
	return nil, false
}

func (s *State) typeAssert(in *ssa.TypeAssert, x Value) Value {
	at := in.AssertedType
	fail := func(found string) Value {
		if in.CommaOk {
			return Tuple{zero(at), false}
		}
		s.goPanicRuntime(fmt.Sprintf("interface conversion: interface {} is %s, not %s", found, reflectName(at)), "TypeAssertionError")
		return nil
	}
	ok := func(v Value) Value {
		if in.CommaOk {
			return Tuple{v, true}
		}
		return v
	}
	if sx, isSym := x.(*SymIface); isSym {
		if _, resolved := s.candidates(sx.Node); !resolved && !isInterface(at) {
			mask := s.kindMaskOf(at)
			if mask == 0 || !s.narrowTo(sx.Node, mask) {
				if in.CommaOk {
					return Tuple{zero(at), false}
				}
				// need the found type for the message
				t := s.kindOnly(sx.Node)
				name := "nil"
				if t != nil {
					name = reflectName(t)
				}
				return fail(name)
			}
		}
		if isInterface(at) {
			// asserting to an interface type: nil fails, everything else is decided by method sets
			if at.Underlying().(*types.Interface).NumMethods() == 0 {
				if s.narrowTo(sx.Node, KNil) {
					return fail("nil")
				}
				return ok(x)
			}
		}
	}
	iv := s.resolveIface(x)
	if iv.T == nil {
		return fail("nil")
	}
	if isInterface(at) {
		if s.W.implements(iv.T, at) {
			return ok(iv)
		}
		return fail(reflectName(iv.T))
	}
	if s.W.identical(iv.T, at) {
		return ok(copyVal(iv.V))
	}
	return fail(reflectName(iv.T))
}
