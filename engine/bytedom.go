package engine

import (
	"strconv"
	"strings"
)

// Exact front-end cache for constraints over a single symbolic byte: the
// feasible values of each byte variable are kept as a 256-bit set, and a
// condition mentioning only that variable (plus constants) is decided by
// evaluating it on the set. The solver stays the authority: the conditions
// are still added to the path condition, every completed path is re-checked
// sat, and `verif` can re-check pruned sides (thorough tiers).

type byteSet [4]uint64

func (b *byteSet) has(v int) bool { return b[v>>6]&(1<<uint(v&63)) != 0 }
func (b *byteSet) set(v int)      { b[v>>6] |= 1 << uint(v&63) }
func (b byteSet) empty() bool     { return b[0]|b[1]|b[2]|b[3] == 0 }
func (b byteSet) and(o byteSet) byteSet {
	return byteSet{b[0] & o[0], b[1] & o[1], b[2] & o[2], b[3] & o[3]}
}
func (b byteSet) minus(o byteSet) byteSet {
	return byteSet{b[0] &^ o[0], b[1] &^ o[1], b[2] &^ o[2], b[3] &^ o[3]}
}
func fullByteSet() byteSet { return byteSet{^uint64(0), ^uint64(0), ^uint64(0), ^uint64(0)} }

// singleByteVar returns the only variable of t if it is a BV8 variable and t
// uses only operators the concrete evaluator supports.
func singleByteVar(t *Term, cache map[*Term]*Term) (*Term, bool) {
	if v, ok := cache[t]; ok {
		return v, v != nil
	}
	var found *Term
	ok := true
	var walk func(x *Term)
	seen := map[*Term]bool{}
	walk = func(x *Term) {
		if !ok || seen[x] {
			return
		}
		seen[x] = true
		switch x.Op {
		case "var":
			if x.S.K != SBV || x.S.W != 8 {
				ok = false
				return
			}
			if found != nil && found != x {
				ok = false
				return
			}
			found = x
			return
		case "const":
			if x.S.K == SFP || x.S.K == SInt {
				ok = false
			}
			return
		}
		if !evalSupported(x.Op) {
			ok = false
			return
		}
		for _, a := range x.Args {
			walk(a)
		}
	}
	walk(t)
	if !ok || found == nil {
		cache[t] = nil
		return nil, false
	}
	cache[t] = found
	return found, true
}

func evalSupported(op string) bool {
	switch op {
	case "not", "and", "or", "=", "ite", "bvadd", "bvsub", "bvmul", "bvand", "bvor", "bvxor", "bvnot", "bvneg",
		"bvult", "bvule", "bvugt", "bvuge", "bvslt", "bvsle", "bvsgt", "bvsge", "bvshl", "bvlshr":
		return true
	}
	return strings.HasPrefix(op, "(_ zero_extend") || strings.HasPrefix(op, "(_ sign_extend") || strings.HasPrefix(op, "(_ extract")
}

// evalTerm evaluates a BV/Bool term with the single variable bound to val.
// Booleans are returned as 0/1.
func evalTerm(t *Term, v *Term, val uint64) uint64 {
	switch t.Op {
	case "var":
		return val
	case "const":
		if t.S.K == SBool {
			if t.BVal {
				return 1
			}
			return 0
		}
		return t.UVal
	}
	a := func(i int) uint64 { return evalTerm(t.Args[i], v, val) }
	w := 0
	if len(t.Args) > 0 {
		w = t.Args[0].S.W
	}
	b2u := func(b bool) uint64 {
		if b {
			return 1
		}
		return 0
	}
	switch t.Op {
	case "not":
		return 1 - a(0)
	case "and":
		for i := range t.Args {
			if a(i) == 0 {
				return 0
			}
		}
		return 1
	case "or":
		for i := range t.Args {
			if a(i) != 0 {
				return 1
			}
		}
		return 0
	case "=":
		return b2u(a(0) == a(1))
	case "ite":
		if a(0) != 0 {
			return a(1)
		}
		return a(2)
	case "bvadd":
		return maskW(a(0)+a(1), t.S.W)
	case "bvsub":
		return maskW(a(0)-a(1), t.S.W)
	case "bvmul":
		return maskW(a(0)*a(1), t.S.W)
	case "bvand":
		return a(0) & a(1)
	case "bvor":
		return a(0) | a(1)
	case "bvxor":
		return a(0) ^ a(1)
	case "bvnot":
		return maskW(^a(0), t.S.W)
	case "bvneg":
		return maskW(-a(0), t.S.W)
	case "bvshl":
		if a(1) >= uint64(t.S.W) {
			return 0
		}
		return maskW(a(0)<<a(1), t.S.W)
	case "bvlshr":
		if a(1) >= uint64(t.S.W) {
			return 0
		}
		return a(0) >> a(1)
	case "bvult":
		return b2u(a(0) < a(1))
	case "bvule":
		return b2u(a(0) <= a(1))
	case "bvugt":
		return b2u(a(0) > a(1))
	case "bvuge":
		return b2u(a(0) >= a(1))
	case "bvslt":
		return b2u(signExt(a(0), w) < signExt(a(1), w))
	case "bvsle":
		return b2u(signExt(a(0), w) <= signExt(a(1), w))
	case "bvsgt":
		return b2u(signExt(a(0), w) > signExt(a(1), w))
	case "bvsge":
		return b2u(signExt(a(0), w) >= signExt(a(1), w))
	}
	if strings.HasPrefix(t.Op, "(_ zero_extend") {
		return a(0)
	}
	if strings.HasPrefix(t.Op, "(_ sign_extend") {
		return maskW(uint64(signExt(a(0), w)), t.S.W)
	}
	if strings.HasPrefix(t.Op, "(_ extract") {
		parts := strings.Fields(strings.Trim(t.Op, "()"))
		hi, _ := strconv.Atoi(parts[2])
		lo, _ := strconv.Atoi(parts[3])
		return maskW(a(0)>>uint(lo), hi-lo+1)
	}
	panic("evalTerm: unsupported " + t.Op)
}

// byteDomain returns the current feasible set of byte variable v.
func (s *State) byteDomain(v *Term) byteSet {
	if d, ok := s.bdom[v]; ok {
		return d
	}
	return fullByteSet()
}

// splitByte evaluates a single-byte condition over the variable's domain.
func (s *State) splitByte(c, v *Term) (t, f byteSet) {
	dom := s.byteDomain(v)
	for val := 0; val < 256; val++ {
		if !dom.has(val) {
			continue
		}
		if evalTerm(c, v, uint64(val)) != 0 {
			t.set(val)
		} else {
			f.set(val)
		}
	}
	return
}

// noteByteConstraint narrows the byte domain when an assumed constraint
// mentions a single byte variable.
func (s *State) noteByteConstraint(c *Term) {
	v, ok := singleByteVar(c, s.W.sbvCache)
	if !ok {
		return
	}
	t, _ := s.splitByte(c, v)
	if s.bdom == nil {
		s.bdom = map[*Term]byteSet{}
	}
	s.bdom[v] = t
}
