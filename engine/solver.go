package engine

import (
	"bufio"
	"fmt"
	"io"
	"os"
	"os/exec"
	"strconv"
	"strings"
	"time"
)

type SatResult int

const (
	Unsat SatResult = iota
	Sat
	Unknown
)

func (r SatResult) String() string { return [...]string{"unsat", "sat", "unknown"}[r] }

// Solver drives one long-lived SMT solver process over a pipe. The assertion
// stack mirrors a path condition: one push level per asserted term.
type Solver struct {
	Backend string
	cmd     *exec.Cmd
	in      io.WriteCloser
	out     *bufio.Reader
	pool    *TermPool
	decl    map[string]bool
	stack   []*Term
	log     io.Writer

	Queries, NSat, NUnsat, NUnknown int
	Restarts                        int
	seq                             int
	retrying                        bool
	Errors                          []string
	Time                            time.Duration
	TimeoutMs                       int
}

var faultEvery = func() int {
	n, _ := strconv.Atoi(os.Getenv("VERIF_SOLVER_FAULT"))
	return n
}()

func SolverArgs(backend string) (string, []string) {
	switch backend {
	case "", "z3":
		return "z3", []string{"-in"}
	case "z3-new":
		return "z3-new", []string{"-in"}
	case "cvc5":
		return "cvc5", []string{"--incremental", "--lang=smt2", "--produce-models", "--fp-exp"}
	}
	return backend, nil
}

func NewSolver(backend string, pool *TermPool, logPath string) (*Solver, error) {
	s := &Solver{Backend: backend, pool: pool, decl: map[string]bool{}, TimeoutMs: 20000}
	if logPath != "" {
		f, err := os.Create(logPath)
		if err != nil {
			return nil, err
		}
		s.log = f
	}
	if err := s.start(); err != nil {
		return nil, err
	}
	return s, nil
}

func (s *Solver) start() error {
	name, args := SolverArgs(s.Backend)
	s.cmd = exec.Command(name, args...)
	in, err := s.cmd.StdinPipe()
	if err != nil {
		return err
	}
	out, err := s.cmd.StdoutPipe()
	if err != nil {
		return err
	}
	s.cmd.Stderr = nil
	if err := s.cmd.Start(); err != nil {
		return err
	}
	s.in = in
	s.out = bufio.NewReaderSize(out, 1<<16)
	s.stack = nil
	s.decl = map[string]bool{}
	if strings.HasPrefix(name, "z3") {
		s.send("(set-option :global-declarations true)")
		s.send(fmt.Sprintf("(set-option :timeout %d)", s.TimeoutMs))
	} else {
		s.send("(set-option :global-declarations true)")
		s.send("(set-option :produce-models true)")
		s.send(fmt.Sprintf("(set-option :tlimit-per %d)", s.TimeoutMs))
		s.send("(set-logic ALL)")
	}
	return nil
}

func (s *Solver) Close() {
	if s.cmd != nil {
		s.in.Close()
		s.cmd.Process.Kill()
		s.cmd.Wait()
		s.cmd = nil
	}
	if c, ok := s.log.(io.Closer); ok {
		c.Close()
	}
}

func (s *Solver) send(line string) {
	if s.log != nil {
		fmt.Fprintln(s.log, line)
	}
	io.WriteString(s.in, line)
	io.WriteString(s.in, "\n")
}

func (s *Solver) readLine() string {
	line, err := s.out.ReadString('\n')
	if err != nil {
		return "(error \"solver pipe: " + err.Error() + "\")"
	}
	return strings.TrimSpace(line)
}

// readSexp reads a balanced s-expression (possibly multi-line).
func (s *Solver) readSexp() string {
	var sb strings.Builder
	depth, started := 0, false
	inBar := false
	for {
		line, err := s.out.ReadString('\n')
		if err != nil {
			return "(error \"solver pipe\")"
		}
		for _, c := range line {
			if c == '|' {
				inBar = !inBar
			}
			if inBar {
				continue
			}
			if c == '(' {
				depth++
				started = true
			} else if c == ')' {
				depth--
			}
		}
		sb.WriteString(line)
		if started && depth <= 0 {
			break
		}
		if !started && strings.TrimSpace(line) != "" {
			break
		}
	}
	return strings.TrimSpace(sb.String())
}

func (s *Solver) declare() {
	for _, d := range s.pool.Decls(s.decl) {
		s.send(d)
	}
}

// sync makes the solver's assertion stack equal to pc.
func (s *Solver) sync(pc []*Term) {
	n := 0
	for n < len(s.stack) && n < len(pc) && s.stack[n] == pc[n] {
		n++
	}
	if d := len(s.stack) - n; d > 0 {
		s.send(fmt.Sprintf("(pop %d)", d))
		s.stack = s.stack[:n]
	}
	s.declare()
	for _, t := range pc[n:] {
		s.send("(push 1)")
		s.send("(assert " + t.str + ")")
		s.stack = append(s.stack, t)
	}
}

// Check decides satisfiability of pc ∧ extra. If wantModel is non-nil and the
// result is sat, values of those variables are returned. The exchange with the
// solver is framed by echo markers, so that an unexpected line (an `(error`
// from a cancelled command, a warning) cannot shift later answers; after any
// error the solver process is restarted and the query is retried once.
func (s *Solver) Check(pc []*Term, extra []*Term, wantModel []*Term) (SatResult, map[string]ModelVal) {
	t0 := time.Now()
	defer func() { s.Time += time.Since(t0) }()
	s.Queries++
	res, model, hadErr := s.checkOnce(pc, extra, wantModel)
	if hadErr {
		s.Restarts++
		s.restart()
		s.retrying = true
		res, model, hadErr = s.checkOnce(pc, extra, wantModel)
		s.retrying = false
		if hadErr {
			s.restart()
			res = Unknown
		}
	}
	switch res {
	case Sat:
		s.NSat++
	case Unsat:
		s.NUnsat++
	default:
		s.NUnknown++
	}
	return res, model
}

func (s *Solver) restart() {
	if s.cmd != nil {
		s.in.Close()
		s.cmd.Process.Kill()
		s.cmd.Wait()
		s.cmd = nil
	}
	s.start()
}

// readUntilMarker reads lines up to the echo marker and returns them.
func (s *Solver) readUntilMarker(marker string) ([]string, bool) {
	var lines []string
	for {
		line, err := s.out.ReadString('\n')
		if err != nil {
			return lines, false
		}
		l := strings.TrimSpace(line)
		if l == marker || l == "\""+marker+"\"" {
			return lines, true
		}
		if l != "" {
			lines = append(lines, l)
		}
	}
}

func (s *Solver) checkOnce(pc []*Term, extra []*Term, wantModel []*Term) (SatResult, map[string]ModelVal, bool) {
	s.sync(pc)
	s.seq++
	marker := fmt.Sprintf("@@%d", s.seq)
	s.send("(push 1)")
	for _, e := range extra {
		s.send("(assert " + e.str + ")")
	}
	if faultEvery > 0 && s.seq%faultEvery == 0 && !s.retrying {
		s.send("(assert (this-is-a-fault-injection))") // test hook (VERIF_SOLVER_FAULT): provokes an (error ...) line
	}
	s.send("(check-sat)")
	s.send("(echo \"" + marker + "\")")
	lines, ok := s.readUntilMarker(marker)
	if !ok {
		s.Errors = append(s.Errors, "solver pipe closed")
		return Unknown, nil, true
	}
	res := Unknown
	answered := false
	hadErr := false
	for _, l := range lines {
		switch {
		case l == "sat" && !answered:
			res, answered = Sat, true
		case l == "unsat" && !answered:
			res, answered = Unsat, true
		case (l == "unknown" || l == "timeout") && !answered:
			res, answered = Unknown, true
		case strings.HasPrefix(l, "(error"):
			hadErr = true
			if len(s.Errors) < 20 {
				s.Errors = append(s.Errors, l)
			}
		}
	}
	if hadErr || !answered {
		return Unknown, nil, true
	}
	var model map[string]ModelVal
	if res == Sat && len(wantModel) > 0 {
		var sb strings.Builder
		sb.WriteString("(get-value (")
		for _, v := range wantModel {
			sb.WriteString(v.str)
			sb.WriteByte(' ')
		}
		sb.WriteString("))")
		s.send(sb.String())
		s.seq++
		m2 := fmt.Sprintf("@@%d", s.seq)
		s.send("(echo \"" + m2 + "\")")
		vl, ok := s.readUntilMarker(m2)
		txt := strings.Join(vl, "\n")
		if !ok || strings.Contains(txt, "(error") {
			if len(s.Errors) < 20 {
				s.Errors = append(s.Errors, "get-value: "+txt)
			}
			return Unknown, nil, true
		}
		model = parseModel(txt, wantModel)
	}
	s.send("(pop 1)")
	return res, model, false
}

// ModelVal is a value from a solver model.
type ModelVal struct {
	S    Sort
	U    uint64 // BV bits / Int value (as int64 bits)
	B    bool
	Text string
}

type sexp struct {
	atom string
	list []*sexp
}

func parseSexp(s string, i *int) *sexp {
	for *i < len(s) && (s[*i] == ' ' || s[*i] == '\n' || s[*i] == '\t' || s[*i] == '\r') {
		*i++
	}
	if *i >= len(s) {
		return nil
	}
	if s[*i] == '(' {
		*i++
		n := &sexp{list: []*sexp{}}
		for {
			for *i < len(s) && (s[*i] == ' ' || s[*i] == '\n' || s[*i] == '\t' || s[*i] == '\r') {
				*i++
			}
			if *i >= len(s) {
				return n
			}
			if s[*i] == ')' {
				*i++
				return n
			}
			c := parseSexp(s, i)
			if c == nil {
				return n
			}
			n.list = append(n.list, c)
		}
	}
	st := *i
	if s[*i] == '|' {
		*i++
		for *i < len(s) && s[*i] != '|' {
			*i++
		}
		*i++
		return &sexp{atom: s[st:*i]}
	}
	for *i < len(s) && !strings.ContainsRune(" \n\t\r()", rune(s[*i])) {
		*i++
	}
	return &sexp{atom: s[st:*i]}
}

func (e *sexp) String() string {
	if e.list == nil {
		return e.atom
	}
	parts := make([]string, len(e.list))
	for i, c := range e.list {
		parts[i] = c.String()
	}
	return "(" + strings.Join(parts, " ") + ")"
}

func parseModel(txt string, vars []*Term) map[string]ModelVal {
	i := 0
	root := parseSexp(txt, &i)
	out := map[string]ModelVal{}
	if root == nil || root.list == nil {
		return out
	}
	for k, pair := range root.list {
		if pair.list == nil || len(pair.list) != 2 || k >= len(vars) {
			continue
		}
		v := vars[k]
		val := pair.list[1]
		mv := ModelVal{S: v.S, Text: val.String()}
		switch v.S.K {
		case SBool:
			mv.B = val.atom == "true"
		case SBV:
			if strings.HasPrefix(val.atom, "#x") {
				u, _ := strconv.ParseUint(val.atom[2:], 16, 64)
				mv.U = u
			} else if strings.HasPrefix(val.atom, "#b") {
				u, _ := strconv.ParseUint(val.atom[2:], 2, 64)
				mv.U = u
			} else if val.list != nil && len(val.list) == 3 && val.list[0].atom == "_" {
				u, _ := strconv.ParseUint(strings.TrimPrefix(val.list[1].atom, "bv"), 10, 64)
				mv.U = u
			}
		case SInt:
			if val.list != nil && len(val.list) == 2 && val.list[0].atom == "-" {
				n, _ := strconv.ParseInt(val.list[1].atom, 10, 64)
				mv.U = uint64(-n)
			} else {
				n, _ := strconv.ParseInt(val.atom, 10, 64)
				mv.U = uint64(n)
			}
		}
		out[v.Name] = mv
	}
	return out
}
