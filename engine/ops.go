package engine

import (
	"fmt"
	"go/token"
	"go/types"
	"math"
	"sort"
	"unicode/utf8"

	"golang.org/x/tools/go/ssa"
)

func (s *State) unop(in *ssa.UnOp, x Value) Value {
	switch in.Op {
	case token.MUL:
		return s.load(x.(Ptr))
	case token.NOT:
		switch b := x.(type) {
		case bool:
			return !b
		case *Term:
			return s.W.Pool.Not(b)
		}
	case token.SUB:
		switch v := x.(type) {
		case int64:
			w, _ := intWidth(basicKind(in.X.Type()))
			return normInt(-v, w)
		case uint64:
			w, _ := intWidth(basicKind(in.X.Type()))
			return normUint(-v, w)
		case float64:
			return -v
		case *Term:
			if v.S.K == SBV {
				return s.W.Pool.App("bvneg", v.S, v)
			}
			if v.S.K == SFP {
				return s.W.Pool.App("fp.neg", v.S, v)
			}
		}
	case token.XOR:
		switch v := x.(type) {
		case int64:
			w, _ := intWidth(basicKind(in.X.Type()))
			return normInt(^v, w)
		case uint64:
			w, _ := intWidth(basicKind(in.X.Type()))
			return normUint(^v, w)
		case *Term:
			return s.W.Pool.App("bvnot", v.S, v)
		}
	}
	s.abort("unsupported unop %s on %T", in.Op, x)
	return nil
}

// liftInt turns a concrete or symbolic integer into a BV term of width w.
func (s *State) liftInt(v Value, w int) *Term {
	switch x := v.(type) {
	case int64:
		return s.W.Pool.BVConst(uint64(x), w)
	case uint64:
		return s.W.Pool.BVConst(x, w)
	case *Term:
		return x
	}
	s.abort("liftInt: %T", v)
	return nil
}

func (s *State) liftFloat(v Value) *Term {
	switch x := v.(type) {
	case float64:
		return s.W.Pool.FPConst(x)
	case *Term:
		return x
	}
	s.abort("liftFloat: %T", v)
	return nil
}

func (s *State) liftBool(v Value) *Term {
	switch x := v.(type) {
	case bool:
		return s.W.Pool.Bool(x)
	case *Term:
		return x
	}
	s.abort("liftBool: %T", v)
	return nil
}

func isSym(v Value) bool {
	switch v.(type) {
	case *Term, *SymStr, *AbsStr:
		return true
	}
	return false
}

func (s *State) binop(op token.Token, t types.Type, x, y Value) Value {
	switch op {
	case token.EQL:
		return s.eqValues(t, x, y)
	case token.NEQ:
		r := s.eqValues(t, x, y)
		if b, ok := r.(bool); ok {
			return !b
		}
		return s.W.Pool.Not(r.(*Term))
	}
	b := basicKind(t)
	if b == nil {
		s.abort("binop %s on non-basic type %s", op, t)
	}
	info := b.Info()
	switch {
	case info&types.IsString != 0:
		return s.stringBinop(op, x, y)
	case info&types.IsInteger != 0:
		w, signed := intWidth(b)
		if isSym(x) || isSym(y) {
			return s.symIntBinop(op, w, signed, x, y)
		}
		if signed {
			return s.intBinop(op, w, x.(int64), y)
		}
		return s.uintBinop(op, w, x.(uint64), y)
	case info&types.IsFloat != 0:
		if isSym(x) || isSym(y) {
			return s.symFloatBinop(op, x, y)
		}
		a, c := x.(float64), y.(float64)
		var r float64
		switch op {
		case token.ADD:
			r = a + c
		case token.SUB:
			r = a - c
		case token.MUL:
			r = a * c
		case token.QUO:
			r = a / c
		case token.LSS:
			return a < c
		case token.LEQ:
			return a <= c
		case token.GTR:
			return a > c
		case token.GEQ:
			return a >= c
		default:
			s.abort("float binop %s", op)
		}
		if b.Kind() == types.Float32 {
			r = float64(float32(r))
		}
		return r
	case info&types.IsBoolean != 0:
		// only == and != exist for bools, handled above; && || are control flow
	}
	s.abort("unsupported binop %s on %s", op, t)
	return nil
}

func shiftCount(y Value) uint64 {
	switch c := y.(type) {
	case int64:
		return uint64(c)
	case uint64:
		return c
	}
	return 0
}

func (s *State) intBinop(op token.Token, w int, a int64, yv Value) Value {
	if op == token.SHL || op == token.SHR {
		if c, ok := yv.(int64); ok && c < 0 {
			s.goPanicRuntime("negative shift amount", "errorString")
		}
		n := shiftCount(yv)
		if op == token.SHL {
			if n >= 64 {
				return int64(0)
			}
			return normInt(a<<n, w)
		}
		if n >= 64 {
			n = 63
		}
		return a >> n
	}
	c := yv.(int64)
	switch op {
	case token.ADD:
		return normInt(a+c, w)
	case token.SUB:
		return normInt(a-c, w)
	case token.MUL:
		return normInt(a*c, w)
	case token.QUO:
		if c == 0 {
			s.goPanicRuntime("integer divide by zero", "errorString")
		}
		if c == -1 {
			return normInt(-a, w)
		}
		return normInt(a/c, w)
	case token.REM:
		if c == 0 {
			s.goPanicRuntime("integer divide by zero", "errorString")
		}
		if c == -1 {
			return int64(0)
		}
		return normInt(a%c, w)
	case token.AND:
		return a & c
	case token.OR:
		return a | c
	case token.XOR:
		return normInt(a^c, w)
	case token.AND_NOT:
		return a &^ c
	case token.LSS:
		return a < c
	case token.LEQ:
		return a <= c
	case token.GTR:
		return a > c
	case token.GEQ:
		return a >= c
	}
	s.abort("int binop %s", op)
	return nil
}

func (s *State) uintBinop(op token.Token, w int, a uint64, yv Value) Value {
	if op == token.SHL || op == token.SHR {
		if c, ok := yv.(int64); ok && c < 0 {
			s.goPanicRuntime("negative shift amount", "errorString")
		}
		n := shiftCount(yv)
		if n >= 64 {
			return uint64(0)
		}
		if op == token.SHL {
			return normUint(a<<n, w)
		}
		return a >> n
	}
	c := yv.(uint64)
	switch op {
	case token.ADD:
		return normUint(a+c, w)
	case token.SUB:
		return normUint(a-c, w)
	case token.MUL:
		return normUint(a*c, w)
	case token.QUO:
		if c == 0 {
			s.goPanicRuntime("integer divide by zero", "errorString")
		}
		return a / c
	case token.REM:
		if c == 0 {
			s.goPanicRuntime("integer divide by zero", "errorString")
		}
		return a % c
	case token.AND:
		return a & c
	case token.OR:
		return a | c
	case token.XOR:
		return a ^ c
	case token.AND_NOT:
		return a &^ c
	case token.LSS:
		return a < c
	case token.LEQ:
		return a <= c
	case token.GTR:
		return a > c
	case token.GEQ:
		return a >= c
	}
	s.abort("uint binop %s", op)
	return nil
}

func (s *State) symIntBinop(op token.Token, w int, signed bool, x, y Value) Value {
	p := s.W.Pool
	a := s.liftInt(x, w)
	if op == token.SHL || op == token.SHR {
		// shift count may have another width; normalise to w
		var c *Term
		switch yv := y.(type) {
		case *Term:
			c = yv
			if c.S.W < w {
				c = p.ZeroExtend(c, w)
			} else if c.S.W > w {
				s.abort("symbolic shift count wider than operand")
			}
		default:
			n := shiftCount(y)
			c = p.BVConst(n, w)
			if n >= uint64(w) {
				if op == token.SHL || !signed {
					return s.retInt(p.BVConst(0, w))
				}
				c = p.BVConst(uint64(w-1), w)
			}
		}
		switch {
		case op == token.SHL:
			return p.App("bvshl", BV(w), a, c)
		case signed:
			return p.App("bvashr", BV(w), a, c)
		default:
			return p.App("bvlshr", BV(w), a, c)
		}
	}
	c := s.liftInt(y, w)
	bvop := ""
	cmp := ""
	switch op {
	case token.ADD:
		bvop = "bvadd"
	case token.SUB:
		bvop = "bvsub"
	case token.MUL:
		bvop = "bvmul"
	case token.AND:
		bvop = "bvand"
	case token.OR:
		bvop = "bvor"
	case token.XOR:
		bvop = "bvxor"
	case token.AND_NOT:
		return p.App("bvand", BV(w), a, p.App("bvnot", BV(w), c))
	case token.QUO, token.REM:
		if c.IsConst() && c.UVal != 0 {
			if signed {
				if op == token.QUO {
					bvop = "bvsdiv"
				} else {
					bvop = "bvsrem"
				}
			} else {
				if op == token.QUO {
					bvop = "bvudiv"
				} else {
					bvop = "bvurem"
				}
			}
		} else {
			// symbolic divisor: Go panics on zero (decided here, may fork), otherwise two's-complement division
			if s.decide(p.Eq(c, p.BVConst(0, w)), "divisor-zero") {
				s.goPanicRuntime("integer divide by zero", "errorString")
			}
			if signed {
				if op == token.QUO {
					bvop = "bvsdiv"
				} else {
					bvop = "bvsrem"
				}
			} else {
				if op == token.QUO {
					bvop = "bvudiv"
				} else {
					bvop = "bvurem"
				}
			}
		}
	case token.LSS:
		cmp = "lt"
	case token.LEQ:
		cmp = "le"
	case token.GTR:
		cmp = "gt"
	case token.GEQ:
		cmp = "ge"
	default:
		s.abort("sym int binop %s", op)
	}
	if cmp != "" {
		pre := "bvu"
		if signed {
			pre = "bvs"
		}
		return s.retBool(p.App(pre+cmp, SortBool, a, c))
	}
	return s.retInt(p.App(bvop, BV(w), a, c))
}

// retBool/retInt fold constant terms back to concrete values.
func (s *State) retBool(t *Term) Value {
	if t.IsConst() {
		return t.BVal
	}
	return t
}

func (s *State) retInt(t *Term) Value { return t }

func (s *State) symFloatBinop(op token.Token, x, y Value) Value {
	p := s.W.Pool
	a, c := s.liftFloat(x), s.liftFloat(y)
	switch op {
	case token.LSS:
		return s.retBool(p.App("fp.lt", SortBool, a, c))
	case token.LEQ:
		return s.retBool(p.App("fp.leq", SortBool, a, c))
	case token.GTR:
		return s.retBool(p.App("fp.gt", SortBool, a, c))
	case token.GEQ:
		return s.retBool(p.App("fp.geq", SortBool, a, c))
	case token.ADD:
		return p.App("fp.add RNE", SortFP, a, c)
	case token.SUB:
		return p.App("fp.sub RNE", SortFP, a, c)
	case token.MUL:
		return p.App("fp.mul RNE", SortFP, a, c)
	case token.QUO:
		return p.App("fp.div RNE", SortFP, a, c)
	}
	s.abort("sym float binop %s", op)
	return nil
}

// ---- strings ----

func (s *State) concreteStr(v Value) (string, bool) {
	switch x := v.(type) {
	case string:
		return x, true
	case *SymStr:
		b := make([]byte, len(x.B))
		for i, e := range x.B {
			switch c := e.(type) {
			case uint64:
				b[i] = byte(c)
			case *Term:
				if !c.IsConst() {
					return "", false
				}
				b[i] = byte(c.UVal)
			}
		}
		return string(b), true
	}
	return "", false
}

func toSymStr(v Value) *SymStr {
	switch x := v.(type) {
	case *SymStr:
		return x
	case string:
		ss := &SymStr{B: make([]Value, len(x))}
		for i := 0; i < len(x); i++ {
			ss.B[i] = uint64(x[i])
		}
		return ss
	}
	return nil
}

// normStr turns a SymStr without symbolic bytes into a Go string.
func (s *State) normStr(v Value) Value {
	if ss, ok := v.(*SymStr); ok {
		if str, ok := s.concreteStr(ss); ok {
			return str
		}
	}
	return v
}

func (s *State) stringBinop(op token.Token, x, y Value) Value {
	xs, xok := x.(string)
	ys, yok := y.(string)
	if xok && yok {
		switch op {
		case token.ADD:
			return xs + ys
		case token.LSS:
			return xs < ys
		case token.LEQ:
			return xs <= ys
		case token.GTR:
			return xs > ys
		case token.GEQ:
			return xs >= ys
		}
	}
	if op == token.ADD {
		a, b := toSymStr(x), toSymStr(y)
		if a != nil && b != nil {
			return s.normStr(&SymStr{B: append(append([]Value(nil), a.B...), b.B...)})
		}
	}
	s.abort("unsupported string binop %s on %T,%T", op, x, y)
	return nil
}

func (s *State) byteTerm(v Value) *Term {
	switch c := v.(type) {
	case uint64:
		return s.W.Pool.BVConst(c, 8)
	case *Term:
		return c
	}
	s.abort("byteTerm %T", v)
	return nil
}

func (s *State) strEq(x, y Value) Value {
	p := s.W.Pool
	if xs, ok := x.(string); ok {
		if ys, ok := y.(string); ok {
			return xs == ys
		}
	}
	ax, xabs := x.(*AbsStr)
	ay, yabs := y.(*AbsStr)
	if xabs || yabs {
		var tx, ty *Term
		if xabs {
			tx = ax.Id
		} else if str, ok := s.concreteStr(x); ok {
			tx = s.internStr(str)
		} else {
			s.abort("abstract vs symbolic-byte string comparison")
		}
		if yabs {
			ty = ay.Id
		} else if str, ok := s.concreteStr(y); ok {
			ty = s.internStr(str)
		} else {
			s.abort("abstract vs symbolic-byte string comparison")
		}
		return s.retBool(p.Eq(tx, ty))
	}
	a, b := toSymStr(x), toSymStr(y)
	if a == nil || b == nil {
		s.abort("string equality on %T,%T", x, y)
	}
	if len(a.B) != len(b.B) {
		return false
	}
	var conj []*Term
	for i := range a.B {
		ca, oka := a.B[i].(uint64)
		cb, okb := b.B[i].(uint64)
		if oka && okb {
			if ca != cb {
				return false
			}
			continue
		}
		conj = append(conj, p.Eq(s.byteTerm(a.B[i]), s.byteTerm(b.B[i])))
	}
	return s.retBool(p.And(conj...))
}

// ---- equality ----

func (s *State) boolAnd(a, b Value) Value {
	if x, ok := a.(bool); ok {
		if !x {
			return false
		}
		return b
	}
	if y, ok := b.(bool); ok {
		if !y {
			return false
		}
		return a
	}
	return s.W.Pool.And(a.(*Term), b.(*Term))
}

func (s *State) eqValues(t types.Type, x, y Value) Value {
	p := s.W.Pool
	switch u := t.Underlying().(type) {
	case *types.Basic:
		info := u.Info()
		switch {
		case info&types.IsString != 0:
			return s.strEq(x, y)
		case info&types.IsBoolean != 0:
			if a, ok := x.(bool); ok {
				if b, ok := y.(bool); ok {
					return a == b
				}
			}
			return s.retBool(p.Eq(s.liftBool(x), s.liftBool(y)))
		case info&types.IsInteger != 0:
			if !isSym(x) && !isSym(y) {
				return x == y
			}
			w, _ := intWidth(u)
			return s.retBool(p.Eq(s.liftInt(x, w), s.liftInt(y, w)))
		case info&types.IsFloat != 0:
			if !isSym(x) && !isSym(y) {
				return x.(float64) == y.(float64)
			}
			return s.retBool(p.App("fp.eq", SortBool, s.liftFloat(x), s.liftFloat(y)))
		case info&types.IsComplex != 0:
			return x == y
		case u.Kind() == types.UnsafePointer:
			return x == y
		case u.Kind() == types.UntypedNil:
			return true
		}
	case *types.Pointer, *types.Chan:
		return x.(Ptr) == y.(Ptr)
	case *types.Slice:
		// only comparison with nil is legal
		return x.(Slice).Obj == 0 && y.(Slice).Obj == 0
	case *types.Map:
		return x.(MapRef).Obj == 0 && y.(MapRef).Obj == 0
	case *types.Signature:
		fx, _ := x.(*FuncV)
		fy, _ := y.(*FuncV)
		return fx == nil && fy == nil
	case *types.Struct:
		a, b := x.(*Struct), y.(*Struct)
		var res Value = true
		for i := 0; i < u.NumFields(); i++ {
			res = s.boolAnd(res, s.eqValues(u.Field(i).Type(), a.F[i], b.F[i]))
			if r, ok := res.(bool); ok && !r {
				return false
			}
		}
		return res
	case *types.Array:
		a, b := x.(*Array), y.(*Array)
		var res Value = true
		for i := range a.E {
			res = s.boolAnd(res, s.eqValues(u.Elem(), a.E[i], b.E[i]))
			if r, ok := res.(bool); ok && !r {
				return false
			}
		}
		return res
	case *types.Interface:
		return s.ifaceEq(x, y)
	}
	s.abort("equality on unsupported type %s", t)
	return nil
}

func comparable(t types.Type) bool { return types.Comparable(t) }

func (s *State) ifaceEq(x, y Value) Value {
	// Avoid resolving document nodes when the other side's dynamic type is
	// not among the node's candidate kinds.
	if sx, ok := x.(*SymIface); ok {
		if iy, ok := y.(Iface); ok {
			if r, done := s.symIfaceEqConcrete(sx, iy); done {
				return r
			}
		}
	}
	if sy, ok := y.(*SymIface); ok {
		if ix, ok := x.(Iface); ok {
			if r, done := s.symIfaceEqConcrete(sy, ix); done {
				return r
			}
		}
	}
	a, b := s.resolveIface(x), s.resolveIface(y)
	if a.T == nil || b.T == nil {
		return a.T == nil && b.T == nil
	}
	if !s.W.identical(a.T, b.T) {
		return false
	}
	if !comparable(a.T) {
		s.goPanicRuntime("comparing uncomparable type "+reflectName(a.T), "errorString")
	}
	return s.eqValues(a.T, a.V, b.V)
}

// ---- conversions ----

func (s *State) convert(from, to types.Type, x Value) Value {
	p := s.W.Pool
	fu, tu := from.Underlying(), to.Underlying()
	fb, _ := fu.(*types.Basic)
	tb, _ := tu.(*types.Basic)
	// string <-> slices
	if tsl, ok := tu.(*types.Slice); ok && fb != nil && fb.Info()&types.IsString != 0 {
		eb := tsl.Elem().Underlying().(*types.Basic)
		if eb.Kind() == types.Uint8 {
			ss := toSymStr(x)
			if ss == nil {
				s.abort("[]byte(%T)", x)
			}
			arr := &Array{E: make([]Value, len(ss.B))}
			copy(arr.E, ss.B)
			id := s.heap.alloc(arr, tsl.Elem(), "")
			s.heap.objs[id].Epoch = s.Epoch
			return Slice{Obj: id, Len: len(arr.E), Cap: len(arr.E)}
		}
		// []rune
		var runes []Value
		switch v := x.(type) {
		case string:
			for _, r := range v {
				runes = append(runes, int64(r))
			}
		case *SymStr:
			// concrete runs are decoded; symbolic bytes are assumed ASCII (one rune each)
			i := 0
			for i < len(v.B) {
				if t, ok := v.B[i].(*Term); ok {
					runes = append(runes, p.ZeroExtend(t, 32))
					i++
					continue
				}
				j := i
				var buf []byte
				for j < len(v.B) {
					c, ok := v.B[j].(uint64)
					if !ok {
						break
					}
					buf = append(buf, byte(c))
					j++
				}
				for _, r := range string(buf) {
					runes = append(runes, int64(r))
				}
				i = j
			}
		default:
			s.abort("[]rune(%T)", x)
		}
		arr := &Array{E: runes}
		if arr.E == nil {
			arr.E = []Value{}
		}
		id := s.heap.alloc(arr, tsl.Elem(), "")
		s.heap.objs[id].Epoch = s.Epoch
		return Slice{Obj: id, Len: len(runes), Cap: len(runes)}
	}
	if fsl, ok := fu.(*types.Slice); ok && tb != nil && tb.Info()&types.IsString != 0 {
		sl := x.(Slice)
		eb := fsl.Elem().Underlying().(*types.Basic)
		elems := s.sliceElems(sl)
		if eb.Kind() == types.Uint8 {
			ss := &SymStr{B: make([]Value, len(elems))}
			copy(ss.B, elems)
			return s.normStr(ss)
		}
		// []rune -> string
		ss := &SymStr{}
		for _, e := range elems {
			switch r := e.(type) {
			case int64:
				var buf [4]byte
				rr := rune(r)
				if r < 0 || r > utf8.MaxRune || (r >= 0xD800 && r <= 0xDFFF) {
					rr = utf8.RuneError
				}
				n := utf8.EncodeRune(buf[:], rr)
				for _, b := range buf[:n] {
					ss.B = append(ss.B, uint64(b))
				}
			case *Term:
				ss.B = append(ss.B, p.Extract(r, 7, 0))
			default:
				s.abort("string([]rune) with element %T", e)
			}
		}
		return s.normStr(ss)
	}
	if fb == nil || tb == nil {
		// pointer <-> unsafe.Pointer etc.
		return x
	}
	fi, ti := fb.Info(), tb.Info()
	switch {
	case fi&types.IsInteger != 0 && ti&types.IsString != 0:
		// string(rune)
		n := s.concreteInt(x, "string(int)")
		return string(rune(n))
	case fi&types.IsString != 0 && ti&types.IsString != 0:
		return x
	case fi&types.IsInteger != 0 && ti&types.IsInteger != 0:
		fw, fs := intWidth(fb)
		tw, ts := intWidth(tb)
		switch v := x.(type) {
		case int64:
			if ts {
				return normInt(v, tw)
			}
			return normUint(uint64(v), tw)
		case uint64:
			if ts {
				return normInt(int64(v), tw)
			}
			return normUint(v, tw)
		case *Term:
			switch {
			case tw == fw:
				return v
			case tw < fw:
				return p.Extract(v, tw-1, 0)
			case fs:
				return p.SignExtend(v, tw)
			default:
				return p.ZeroExtend(v, tw)
			}
		}
	case fi&types.IsInteger != 0 && ti&types.IsFloat != 0:
		switch v := x.(type) {
		case int64:
			if tb.Kind() == types.Float32 {
				return float64(float32(v))
			}
			return float64(v)
		case uint64:
			if tb.Kind() == types.Float32 {
				return float64(float32(v))
			}
			return float64(v)
		case *Term:
			_, fs := intWidth(fb)
			if fs {
				return p.App("(_ to_fp 11 53) RNE", SortFP, v)
			}
			return p.App("(_ to_fp_unsigned 11 53) RNE", SortFP, v)
		}
	case fi&types.IsFloat != 0 && ti&types.IsInteger != 0:
		tw, ts := intWidth(tb)
		switch v := x.(type) {
		case float64:
			if ts {
				return normInt(int64(v), tw)
			}
			return normUint(uint64(v), tw)
		case *Term:
			if ts {
				return p.App(fmt.Sprintf("(_ fp.to_sbv %d) RTZ", tw), BV(tw), v)
			}
			return p.App(fmt.Sprintf("(_ fp.to_ubv %d) RTZ", tw), BV(tw), v)
		}
	case fi&types.IsFloat != 0 && ti&types.IsFloat != 0:
		if v, ok := x.(float64); ok {
			if tb.Kind() == types.Float32 {
				return float64(float32(v))
			}
			return v
		}
		if tb.Kind() == types.Float32 {
			s.abort("symbolic float32 conversion")
		}
		return x
	case fi&types.IsComplex != 0 && ti&types.IsComplex != 0:
		return x
	}
	s.abort("unsupported conversion %s -> %s (%T)", from, to, x)
	return nil
}

// ---- slices, arrays, maps ----

func (s *State) sliceElems(sl Slice) []Value {
	if sl.Obj == 0 || sl.Len == 0 {
		return nil
	}
	o := s.heap.get(sl.Obj)
	if s.AccessLog != nil {
		s.AccessLog.note(s, Ptr{Obj: sl.Obj, Path: sl.Path}, false)
	}
	if o.Poison {
		s.notePoison(Ptr{Obj: sl.Obj}, o)
	}
	arr := s.navigate(o.V, sl.Path).(*Array)
	return arr.E[sl.Off : sl.Off+sl.Len]
}

func (s *State) arrayAt(obj int, path string) *Array {
	o := s.heap.get(obj)
	a, ok := s.navigate(o.V, path).(*Array)
	if !ok {
		s.abort("expected array in object")
	}
	return a
}

func (s *State) boundsPanic(i int64, n int) {
	s.goPanicRuntime(fmt.Sprintf("index out of range [%d] with length %d", i, n), "boundsError")
}

func (s *State) indexAddr(fr *Frame, in *ssa.IndexAddr) Value {
	x := s.get(fr, in.X)
	idx := s.concreteInt(s.get(fr, in.Index), "index")
	switch v := x.(type) {
	case Slice:
		if idx < 0 || int(idx) >= v.Len {
			s.boundsPanic(idx, v.Len)
		}
		return Ptr{Obj: v.Obj, Path: pathAppend(v.Path, v.Off+int(idx))}
	case Ptr:
		if v.Obj == 0 {
			s.goPanicRuntime("invalid memory address or nil pointer dereference", "errorString")
		}
		n := int(in.X.Type().Underlying().(*types.Pointer).Elem().Underlying().(*types.Array).Len())
		if idx < 0 || int(idx) >= n {
			s.boundsPanic(idx, n)
		}
		return Ptr{Obj: v.Obj, Path: pathAppend(v.Path, int(idx))}
	}
	s.abort("indexAddr on %T", x)
	return nil
}

func (s *State) indexOp(fr *Frame, in *ssa.Index) Value {
	x := s.get(fr, in.X)
	idx := s.concreteInt(s.get(fr, in.Index), "index")
	switch v := x.(type) {
	case *Array:
		if idx < 0 || int(idx) >= len(v.E) {
			s.boundsPanic(idx, len(v.E))
		}
		return copyVal(v.E[idx])
	case string:
		if idx < 0 || int(idx) >= len(v) {
			s.boundsPanic(idx, len(v))
		}
		return uint64(v[idx])
	case *SymStr:
		if idx < 0 || int(idx) >= len(v.B) {
			s.boundsPanic(idx, len(v.B))
		}
		return v.B[idx]
	}
	s.abort("index on %T", x)
	return nil
}

func (s *State) lookup(fr *Frame, in *ssa.Lookup) Value {
	x := s.get(fr, in.X)
	switch v := x.(type) {
	case string, *SymStr:
		idx := s.concreteInt(s.get(fr, in.Index), "index")
		ss := toSymStr(v)
		if idx < 0 || int(idx) >= len(ss.B) {
			s.boundsPanic(idx, len(ss.B))
		}
		return ss.B[idx]
	case MapRef:
		vt := in.X.Type().Underlying().(*types.Map).Elem()
		var val Value
		found := false
		if v.Obj != 0 {
			k := s.get(fr, in.Index)
			val, found = s.mapLookup(v, k)
		}
		if !found {
			val = zero(vt)
		}
		if in.CommaOk {
			return Tuple{val, found}
		}
		return val
	}
	s.abort("lookup on %T", x)
	return nil
}

// symKey reports whether k is a string with symbolic bytes.
func (s *State) symKey(k Value) (*SymStr, bool) {
	if ss, ok := k.(*SymStr); ok {
		if _, conc := s.concreteStr(ss); !conc {
			return ss, true
		}
	}
	return nil, false
}

// findEntry locates the entry whose key equals k when k or some key of the
// map has symbolic bytes: keys are compared one by one (deciding each
// equality, which may fork).
func (s *State) findEntry(md *MapData, k Value) (string, bool) {
	for _, ks := range md.Keys {
		e := md.M[ks]
		eq := s.strEq(k, e.K)
		hit := false
		switch c := eq.(type) {
		case bool:
			hit = c
		case *Term:
			hit = s.decide(c, "mapkey")
		}
		if hit {
			return ks, true
		}
	}
	return "", false
}

func (s *State) mapLookup(m MapRef, k Value) (Value, bool) {
	md0 := s.mapData(m, false)
	if _, sym := s.symKey(k); sym || md0.SymKeys {
		if _, isStr := k.(string); isStr || sym {
			if s.AccessLog != nil {
				s.AccessLog.note(s, Ptr{Obj: m.Obj}, false)
			}
			if ks, ok := s.findEntry(md0, k); ok {
				return copyVal(md0.M[ks].V), true
			}
			return nil, false
		}
	}
	ks := s.mapKey(k)
	md := s.mapData(m, false)
	if s.AccessLog != nil {
		s.AccessLog.note(s, Ptr{Obj: m.Obj}, false)
	}
	if e, ok := md.M[ks]; ok {
		return copyVal(e.V), true
	}
	return nil, false
}

func (s *State) sliceOp(fr *Frame, in *ssa.Slice) Value {
	x := s.get(fr, in.X)
	var lo, hi, max int64 = 0, -1, -1
	// a symbolic bound is first split into "within 0..cap" and "outside" (the
	// latter is Go's bounds panic), so that only the cap+1 in-range values are
	// enumerated afterwards
	limit := int64(-1)
	switch v := x.(type) {
	case Slice:
		limit = int64(v.Cap)
	case string:
		limit = int64(len(v))
	case *SymStr:
		limit = int64(len(v.B))
	}
	if limit >= 0 {
		for _, opnd := range []ssa.Value{in.Low, in.High, in.Max} {
			if opnd == nil {
				continue
			}
			if t, ok := s.get(fr, opnd).(*Term); ok && !t.IsConst() {
				p := s.W.Pool
				inRange := p.And(p.App("bvsge", SortBool, t, p.BVConst(0, t.S.W)), p.App("bvsle", SortBool, t, p.BVConst(uint64(limit), t.S.W)))
				if !s.decide(inRange, "slice-bound") {
					s.goPanicRuntime(fmt.Sprintf("slice bounds out of range [symbolic bound] with capacity %d", limit), "boundsError")
				}
			}
		}
	}
	if in.Low != nil {
		lo = s.concreteInt(s.get(fr, in.Low), "slice low")
	}
	if in.High != nil {
		hi = s.concreteInt(s.get(fr, in.High), "slice high")
	}
	if in.Max != nil {
		max = s.concreteInt(s.get(fr, in.Max), "slice max")
	}
	switch v := x.(type) {
	case string, *SymStr:
		ss := toSymStr(v)
		if hi < 0 {
			hi = int64(len(ss.B))
		}
		if lo < 0 || hi > int64(len(ss.B)) || lo > hi {
			s.goPanicRuntime(fmt.Sprintf("slice bounds out of range [%d:%d] with length %d", lo, hi, len(ss.B)), "boundsError")
		}
		if str, ok := v.(string); ok {
			return str[lo:hi]
		}
		return s.normStr(&SymStr{B: ss.B[lo:hi]})
	case Slice:
		if hi < 0 {
			hi = int64(v.Len)
		}
		if max < 0 {
			max = int64(v.Cap)
		}
		if lo < 0 || hi > int64(v.Cap) || lo > hi || max > int64(v.Cap) || hi > max {
			s.goPanicRuntime(fmt.Sprintf("slice bounds out of range [%d:%d] with capacity %d", lo, hi, v.Cap), "boundsError")
		}
		if v.Obj == 0 {
			return Slice{}
		}
		return Slice{Obj: v.Obj, Path: v.Path, Off: v.Off + int(lo), Len: int(hi - lo), Cap: int(max - lo)}
	case Ptr:
		if v.Obj == 0 {
			s.goPanicRuntime("invalid memory address or nil pointer dereference", "errorString")
		}
		n := int64(in.X.Type().Underlying().(*types.Pointer).Elem().Underlying().(*types.Array).Len())
		if hi < 0 {
			hi = n
		}
		if max < 0 {
			max = n
		}
		if lo < 0 || hi > n || lo > hi || max > n || hi > max {
			s.goPanicRuntime("slice bounds out of range", "boundsError")
		}
		return Slice{Obj: v.Obj, Path: v.Path, Off: int(lo), Len: int(hi - lo), Cap: int(max - lo)}
	}
	s.abort("slice on %T", x)
	return nil
}

// ---- range ----

type mapIter struct {
	m    MapRef
	keys []string
	pos  *int // boxed in a heap cell to survive register copies
	cell int  // heap object holding the position
}

type strIter struct {
	str  Value
	cell int
}

func (s *State) rangeOp(in *ssa.Range, x Value) Value {
	switch v := x.(type) {
	case MapRef:
		var keys []string
		if v.Obj != 0 {
			md := s.mapData(v, false)
			if s.AccessLog != nil {
				s.AccessLog.note(s, Ptr{Obj: v.Obj}, false)
			}
			keys = s.mapOrder(v, md)
		}
		cell := s.heap.alloc(int64(0), types.Typ[types.Int], "iter")
		return &mapIter{m: v, keys: keys, cell: cell}
	case string, *SymStr:
		cell := s.heap.alloc(int64(0), types.Typ[types.Int], "iter")
		return &strIter{str: v, cell: cell}
	}
	s.abort("range over %T", x)
	return nil
}

func (s *State) nextOp(in *ssa.Next, it Value) Value {
	switch v := it.(type) {
	case *mapIter:
		pos := s.heap.get(v.cell).V.(int64)
		md := s.mapData(v.m, false)
		for int(pos) < len(v.keys) {
			k := v.keys[pos]
			pos++
			if e, ok := md.M[k]; ok {
				s.heap.own(v.cell).V = pos
				return Tuple{true, e.K, copyVal(e.V)}
			}
		}
		s.heap.own(v.cell).V = pos
		return Tuple{false, nil, nil}
	case *strIter:
		pos := s.heap.get(v.cell).V.(int64)
		str, ok := s.concreteStr(v.str)
		if !ok {
			// symbolic bytes are ASCII in every harness (checked on the byte domain): such a
			// byte is a rune of width 1 and ends any multi-byte sequence before it, so the
			// concrete run up to it is decoded by the host as Go would decode it
			ss := toSymStr(v.str)
			if int(pos) >= len(ss.B) {
				return Tuple{false, int64(0), int64(0)}
			}
			if t, isTerm := ss.B[pos].(*Term); isTerm && !t.IsConst() {
				if t.Op != "var" {
					s.abort("range over a string: compound symbolic byte")
				}
				dom := s.byteDomain(t)
				if dom[2]|dom[3] != 0 {
					s.abort("range over a string: symbolic byte may be non-ASCII")
				}
				s.heap.own(v.cell).V = pos + 1
				return Tuple{true, pos, s.W.Pool.ZeroExtend(t, 32)}
			}
			var run []byte
			for k := int(pos); k < len(ss.B); k++ {
				c, isC := ss.B[k].(uint64)
				if !isC {
					if t, isTerm := ss.B[k].(*Term); isTerm && t.IsConst() {
						c, isC = t.UVal, true
					}
				}
				if !isC {
					break
				}
				run = append(run, byte(c))
			}
			r, n := utf8.DecodeRune(run)
			s.heap.own(v.cell).V = pos + int64(n)
			return Tuple{true, pos, int64(r)}
		}
		if int(pos) >= len(str) {
			return Tuple{false, int64(0), int64(0)}
		}
		r, n := utf8.DecodeRuneInString(str[pos:])
		s.heap.own(v.cell).V = pos + int64(n)
		return Tuple{true, pos, int64(r)}
	}
	s.abort("next on %T", it)
	return nil
}

// mapOrder decides the iteration order of a map range. Policy comes from the
// job: "desc" (default, adversarial w.r.t. sortedness), "asc", "insertion",
// or "perm" (fork over every permutation, bounded).
func (s *State) mapOrder(m MapRef, md *MapData) []string {
	mode := "desc"
	if s.W.Job != nil && s.W.Job.MapOrder != "" {
		mode = s.W.Job.MapOrder
	}
	keys := append([]string(nil), md.Keys...)
	switch mode {
	case "insertion":
		return keys
	case "asc":
		sort.Strings(keys)
		return keys
	case "desc":
		sort.Sort(sort.Reverse(sort.StringSlice(keys)))
		return keys
	case "perm":
		sort.Strings(keys)
		n := len(keys)
		if n <= 1 {
			return keys
		}
		// a permutation already chosen for this site on this path?
		site := fmt.Sprintf("perm@%d#%d", m.Obj, s.permCount(m.Obj))
		if alt, ok := s.choiceFor(site); ok {
			s.bumpPerm(m.Obj)
			return permute(keys, alt)
		}
		total := 1
		for i := 2; i <= n; i++ {
			total *= i
		}
		if total > 720 {
			s.abort("unwinding bound: %d permutations", total)
		}
		s.fork(site, total, func(n *State, i int) {})
		return nil
	}
	s.abort("unknown map order mode %s", mode)
	return nil
}

func permute(keys []string, k int) []string {
	pool := append([]string(nil), keys...)
	out := make([]string, 0, len(keys))
	for n := len(pool); n > 0; n-- {
		i := k % n
		k /= n
		out = append(out, pool[i])
		pool = append(pool[:i], pool[i+1:]...)
	}
	return out
}

func (s *State) choiceFor(label string) (int, bool) {
	for i := len(s.choices) - 1; i >= 0; i-- {
		if s.choices[i].Label == label {
			return s.choices[i].Alt, true
		}
	}
	return 0, false
}

func (s *State) permCount(obj int) int {
	v, _ := s.docRes[-1000000-obj].(int)
	return v
}
func (s *State) bumpPerm(obj int) { s.docRes[-1000000-obj] = s.permCount(obj) + 1 }

// ---- builtins ----

func (s *State) builtin(fr *Frame, b *ssa.Builtin, c *ssa.CallCommon, args []Value) Value {
	switch b.Name() {
	case "len":
		switch v := args[0].(type) {
		case string:
			return int64(len(v))
		case *SymStr:
			return int64(len(v.B))
		case Slice:
			return int64(v.Len)
		case MapRef:
			if v.Obj == 0 {
				return int64(0)
			}
			if s.AccessLog != nil {
				s.AccessLog.note(s, Ptr{Obj: v.Obj}, false)
			}
			return int64(len(s.mapData(v, false).M))
		case *Array:
			return int64(len(v.E))
		case Ptr:
			return c.Args[0].Type().Underlying().(*types.Pointer).Elem().Underlying().(*types.Array).Len()
		}
	case "cap":
		switch v := args[0].(type) {
		case Slice:
			return int64(v.Cap)
		case *Array:
			return int64(len(v.E))
		}
	case "append":
		return s.appendOp(c, args)
	case "copy":
		dst := args[0].(Slice)
		var src []Value
		switch v := args[1].(type) {
		case Slice:
			src = append([]Value(nil), s.sliceElems(v)...)
		case string, *SymStr:
			src = toSymStr(v).B
		}
		n := dst.Len
		if len(src) < n {
			n = len(src)
		}
		for i := 0; i < n; i++ {
			s.store(Ptr{Obj: dst.Obj, Path: pathAppend(dst.Path, dst.Off+i)}, src[i])
		}
		return int64(n)
	case "delete":
		m := args[0].(MapRef)
		if m.Obj == 0 {
			return nil
		}
		ks := s.mapKey(args[1])
		md := s.mapData(m, true)
		if _, ok := md.M[ks]; ok {
			delete(md.M, ks)
			for i, k := range md.Keys {
				if k == ks {
					md.Keys = append(md.Keys[:i:i], md.Keys[i+1:]...)
					break
				}
			}
		}
		return nil
	case "recover":
		cur := s.frames[len(s.frames)-1]
		if cur.isDefer && s.panicSet && len(s.frames) >= 2 && s.frames[len(s.frames)-2].panicking {
			v := s.panicVal
			s.panicSet = false
			s.panicVal = nil
			if iv, ok := v.(Iface); ok {
				return iv
			}
			return v
		}
		return Iface{}
	case "print", "println":
		return nil
	case "min", "max":
		if len(args) == 2 {
			a, aok := args[0].(int64)
			bb, bok := args[1].(int64)
			if aok && bok {
				if (b.Name() == "min") == (a < bb) {
					return a
				}
				return bb
			}
		}
	}
	s.abort("unsupported builtin %s(%T...)", b.Name(), args[0])
	return nil
}

func (s *State) appendOp(c *ssa.CallCommon, args []Value) Value {
	dst := args[0].(Slice)
	var add []Value
	switch v := args[1].(type) {
	case Slice:
		add = append([]Value(nil), s.sliceElems(v)...)
	case string, *SymStr:
		add = toSymStr(v).B
	default:
		s.abort("append of %T", args[1])
	}
	if len(add) == 0 {
		return dst
	}
	et := c.Args[0].Type().Underlying().(*types.Slice).Elem()
	need := dst.Len + len(add)
	if need <= dst.Cap && dst.Obj != 0 {
		for i, e := range add {
			s.store(Ptr{Obj: dst.Obj, Path: pathAppend(dst.Path, dst.Off+dst.Len+i)}, e)
		}
		return Slice{Obj: dst.Obj, Path: dst.Path, Off: dst.Off, Len: need, Cap: dst.Cap}
	}
	// grow: Go's growth policy is approximated (doubling); capacity is
	// unobservable to correct programs except via cap().
	ncap := dst.Cap * 2
	if ncap < need {
		ncap = need
	}
	if ncap < 4 {
		ncap = need
		if ncap < 1 {
			ncap = 1
		}
	}
	arr := &Array{E: make([]Value, ncap)}
	old := s.sliceElems(dst)
	for i := range arr.E {
		switch {
		case i < len(old):
			arr.E[i] = copyVal(old[i])
		case i < need:
			arr.E[i] = copyVal(add[i-len(old)])
		default:
			arr.E[i] = zero(et)
		}
	}
	id := s.heap.alloc(arr, et, "")
	s.heap.objs[id].Epoch = s.Epoch
	return Slice{Obj: id, Len: need, Cap: ncap}
}

var _ = math.MaxInt16
