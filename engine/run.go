package engine

import (
	"bufio"
	"encoding/json"
	"fmt"
	"os"
	"os/exec"
	"path/filepath"
	"sort"
	"strings"
	"sync"
	"time"
)

// HarnessOverlay maps the files of harnessDir into repoDir as zz_verif_*.go.
func HarnessOverlay(repoDir, harnessDir string, includeTests bool) (map[string]string, error) {
	ents, err := os.ReadDir(harnessDir)
	if err != nil {
		return nil, err
	}
	ov := map[string]string{}
	for _, e := range ents {
		n := e.Name()
		if !strings.HasSuffix(n, ".go") {
			continue
		}
		if strings.HasSuffix(n, "_test.go") && !includeTests {
			continue
		}
		ov[filepath.Join(repoDir, "zz_verif_"+n)] = filepath.Join(harnessDir, n)
	}
	return ov, nil
}

// Stats aggregates solver/engine counters across workers.
type Stats struct {
	Workers                                              int
	Paths                                                int
	Forks                                                int
	BranchQueries                                        int
	AssertQueries                                        int
	Queries                                              int
	Sat, Unsat                                           int
	Unknown                                              int
	SolverTime                                           time.Duration
	SolverErrors                                         []string
	Steps                                                int64
	DomainDecisions, DomainRechecks, DomainDisagreements int
	DomainRefinements                                    int
	Restarts                                             int
}

// RunJobs explores all jobs on n workers.
// ExploreDeadline, when set, stops the dispatch of further jobs (results of
// jobs not started stay nil).
var ExploreDeadline time.Time

// RecheckRate is the fraction of byte-domain verdicts re-checked by the solver.
var RecheckRate = 0.02

func RunJobs(p *Program, jobs []*Job, n int, backend string, wantFixtures bool, logDir string) ([]*JobResult, *Stats, error) {
	if n < 1 {
		n = 1
	}
	if n > len(jobs) {
		n = len(jobs)
	}
	if n < 1 {
		n = 1
	}
	results := make([]*JobResult, len(jobs))
	stats := &Stats{Workers: n}
	var mu sync.Mutex
	var wg sync.WaitGroup
	next := 0
	var firstErr error
	for wi := 0; wi < n; wi++ {
		wg.Add(1)
		go func(wi int) {
			defer wg.Done()
			logPath := ""
			if logDir != "" {
				logPath = filepath.Join(logDir, fmt.Sprintf("solver-%d.smt2", wi))
			}
			w, err := NewWorker(p, backend, logPath)
			if err != nil {
				mu.Lock()
				firstErr = err
				mu.Unlock()
				return
			}
			defer w.Close()
			w.RecheckRate = RecheckRate
			w.rngState = uint64(wi)*7919 + 12345
			for {
				mu.Lock()
				i := next
				next++
				mu.Unlock()
				if i >= len(jobs) {
					break
				}
				if !ExploreDeadline.IsZero() && time.Now().After(ExploreDeadline) {
					continue // time budget of the run used up: the job is reported as not run
				}
				results[i] = w.Explore(jobs[i], wantFixtures)
				if results[i] != nil && results[i].CutByBudget && results[i].NViol == 0 {
					results[i] = nil
					continue
				}
				if os.Getenv("VERIF_PROGRESS") != "" {
					r := results[i]
					fmt.Fprintf(os.Stderr, "job %s %q: paths=%d done=%d skipped=%d aborted=%d viol=%d forks=%d queries=%d %.1fs trunc=%v bound=%d\n", jobs[i].ID, jobs[i].Params["path"],
						len(r.Paths), r.NDone, r.NSkipped, r.NAborted, r.NViol, r.Forks, r.Queries, r.Elapsed.Seconds(), r.Truncated, r.BoundUsed)
				}
			}
			mu.Lock()
			stats.Paths += w.Paths
			stats.Forks += w.Forks
			stats.BranchQueries += w.BranchQueries
			stats.AssertQueries += w.AssertQueries
			stats.Queries += w.Solver.Queries
			stats.Sat += w.Solver.NSat
			stats.Unsat += w.Solver.NUnsat
			stats.Unknown += w.Solver.NUnknown
			stats.Restarts += w.Solver.Restarts
			stats.SolverTime += w.Solver.Time
			stats.SolverErrors = append(stats.SolverErrors, w.Solver.Errors...)
			stats.Steps += w.Steps
			stats.DomainDecisions += w.DomainDecisions
			stats.DomainRechecks += w.DomainRechecks
			stats.DomainDisagreements += w.DomainDisagreements
			stats.DomainRefinements += w.DomainRefinements
			mu.Unlock()
		}(wi)
	}
	wg.Wait()
	return results, stats, firstErr
}

// ReplayResult is one line written by the native replay test.
type ReplayResult struct {
	Job      string            `json:"job"`
	Harness  string            `json:"harness"`
	Failed   []string          `json:"failed"`
	Out      map[string]string `json:"out"`
	Panicked bool              `json:"panicked"`
	PanicMsg string            `json:"panic_msg"`
	Skipped  bool              `json:"skipped"`
	Index    int               `json:"index"`
	Crashed  bool              `json:"crashed"` // the test binary died on this fixture
	CrashMsg string            `json:"crash_msg"`
}

// NativeReplay runs fixtures against the real build of repoDir through the
// harness overlay (go test -tags verif -overlay ...). If the test binary dies
// (fatal error such as stack overflow) the offending fixture is marked crashed
// and the run resumes after it.
func NativeReplay(repoDir, harnessDir string, fixtures []*Fixture, race bool, timeout time.Duration) ([]ReplayResult, error) {
	if len(fixtures) == 0 {
		return nil, nil
	}
	tmp, err := os.MkdirTemp("", "verif-replay-")
	if err != nil {
		return nil, err
	}
	defer os.RemoveAll(tmp)
	ov, err := HarnessOverlay(repoDir, harnessDir, true)
	if err != nil {
		return nil, err
	}
	ovJSON, _ := json.Marshal(map[string]interface{}{"Replace": ov})
	ovPath := filepath.Join(tmp, "overlay.json")
	if err := os.WriteFile(ovPath, ovJSON, 0o644); err != nil {
		return nil, err
	}
	// build the test binary once
	bin := filepath.Join(tmp, "replay.test")
	args := []string{"test", "-c", "-vet=off", "-tags", "verif", "-overlay", ovPath, "-o", bin}
	if race {
		args = append(args, "-race")
	}
	args = append(args, ".")
	cmd := exec.Command("go", args...)
	cmd.Dir = repoDir
	cmd.Env = append(os.Environ(), "GOFLAGS=-mod=mod", "GOPROXY=off", "GOSUMDB=off", "GOTOOLCHAIN=local")
	if out, err := cmd.CombinedOutput(); err != nil {
		return nil, fmt.Errorf("building native replay binary: %v\n%s", err, out)
	}
	results := make([]ReplayResult, 0, len(fixtures))
	start := 0
	for start < len(fixtures) {
		fxPath := filepath.Join(tmp, "fixtures.jsonl")
		resPath := filepath.Join(tmp, "results.jsonl")
		f, err := os.Create(fxPath)
		if err != nil {
			return nil, err
		}
		bw := bufio.NewWriter(f)
		for _, fx := range fixtures[start:] {
			b, _ := json.Marshal(fx)
			bw.Write(b)
			bw.WriteByte('\n')
		}
		bw.Flush()
		f.Close()
		os.Remove(resPath)
		run := exec.Command(bin, "-test.run", "^TestZZReplay$", "-test.timeout", timeout.String())
		run.Dir = repoDir
		run.Env = append(os.Environ(), "VERIF_FIXTURES="+fxPath, "VERIF_RESULTS="+resPath, "GORACE=halt_on_error=1")
		out, runErr := run.CombinedOutput()
		got := 0
		if rf, err := os.Open(resPath); err == nil {
			sc := bufio.NewScanner(rf)
			sc.Buffer(make([]byte, 1<<20), 1<<26)
			for sc.Scan() {
				var r ReplayResult
				if json.Unmarshal(sc.Bytes(), &r) == nil {
					r.Index = start + got
					results = append(results, r)
					got++
				}
			}
			rf.Close()
		}
		if start+got >= len(fixtures) {
			break
		}
		if runErr == nil {
			return results, fmt.Errorf("native replay produced %d results for %d fixtures", got, len(fixtures)-start)
		}
		// the binary died while running fixture start+got
		msg := string(out)
		if len(msg) > 600 {
			msg = msg[:600]
		}
		results = append(results, ReplayResult{Job: fixtures[start+got].JobID, Harness: fixtures[start+got].Harness,
			Index: start + got, Crashed: true, CrashMsg: msg})
		start += got + 1
	}
	return results, nil
}

var engineOnly = map[string]bool{"uncaught-panic": true, "use-after-put": true, "pool-double-put": true, "deadlock": true, "unlock-unlocked": true, "unbounded-recursion": true, "unbounded-time": true}

// CompareOutputs reports mismatches between engine-predicted and native outputs.
func CompareOutputs(fx *Fixture, r *ReplayResult) []string {
	var diffs []string
	if r.Crashed {
		return []string{"native run crashed: " + r.CrashMsg}
	}
	if r.Skipped {
		return []string{"native run hit a false assumption (fixture does not satisfy the path condition)"}
	}
	if fx.Approx {
		// outputs of approximate paths are not predicted; the assertions still must hold natively
		if len(r.Failed) > 0 && len(fx.Viol) == 0 {
			return []string{fmt.Sprintf("assertions failed natively on an approximate path: %v", r.Failed)}
		}
		return nil
	}
	keys := map[string]bool{}
	for k := range fx.Out {
		keys[k] = true
	}
	for k := range r.Out {
		keys[k] = true
	}
	var ks []string
	for k := range keys {
		ks = append(ks, k)
	}
	sort.Strings(ks)
	for _, k := range ks {
		if fx.Out[k] != r.Out[k] {
			diffs = append(diffs, fmt.Sprintf("%s: engine=%s native=%s", k, fx.Out[k], r.Out[k]))
		}
	}
	var ev []string
	for _, l := range fx.Viol {
		if !engineOnly[l] {
			ev = append(ev, l)
		}
	}
	nv := append([]string(nil), r.Failed...)
	sort.Strings(ev)
	sort.Strings(nv)
	if strings.Join(ev, ",") != strings.Join(nv, ",") {
		diffs = append(diffs, fmt.Sprintf("assertions: engine=%v native=%v", ev, nv))
	}
	if fx.Panics != r.Panicked {
		diffs = append(diffs, fmt.Sprintf("panic: engine=%v native=%v (%s)", fx.Panics, r.Panicked, r.PanicMsg))
	}
	return diffs
}
