package engine

import (
	"errors"
	"fmt"
	"go/types"
	"regexp"
	"strconv"
)

// Models of library calls on strings with symbolic bytes (C02/C16/C17).
// Exact models fork on byte classes through the byte-domain mechanism; the
// over-approximating ones mark the path as approximate (its outputs are then
// not compared with the native run, only its assertions are).

type symRegexp struct{}

func (s *State) byteIs(b Value, c byte) bool {
	switch x := b.(type) {
	case uint64:
		return byte(x) == c
	case *Term:
		return s.decide(s.W.Pool.Eq(x, s.W.Pool.BVConst(uint64(c), 8)), "byte")
	}
	return false
}

func (s *State) byteIn(b Value, lo, hi byte) bool {
	switch x := b.(type) {
	case uint64:
		return byte(x) >= lo && byte(x) <= hi
	case *Term:
		p := s.W.Pool
		return s.decide(p.And(p.App("bvuge", SortBool, x, p.BVConst(uint64(lo), 8)), p.App("bvule", SortBool, x, p.BVConst(uint64(hi), 8))), "byte")
	}
	return false
}

// regexp.Compile on a pattern with symbolic bytes: either outcome, approximate.
func (s *State) symRegexpCompile(pat Value) Value {
	key := fmt.Sprintf("in:approx:recompile#%d", s.approxCount())
	if alt, ok := s.choiceFor(key); ok {
		s.bumpApprox()
		s.Approx = true
		if alt == 0 {
			return Tuple{HostV{V: symRegexp{}}, Iface{}}
		}
		return Tuple{HostV{V: (*regexp.Regexp)(nil)}, s.hostError(errors.New("error parsing regexp: (symbolic pattern)"))}
	}
	s.fork(key, 2, func(n *State, i int) {})
	return nil
}

func (s *State) approxCount() int {
	v, _ := s.docRes[-2000000].(int)
	return v
}
func (s *State) bumpApprox() { s.docRes[-2000000] = s.approxCount() + 1 }

// ReplaceAllStringFunc for the pattern `\\(.)` on a string with symbolic
// bytes: a backslash followed by a byte other than newline is a match; the
// callback is invoked on the two-byte block as the real method would.
func (s *State) symReplaceAll(re *regexp.Regexp, ss *SymStr, fv *FuncV) Value {
	if re.String() != `\\(.)` {
		s.abort("ReplaceAllStringFunc on symbolic bytes is modelled only for the pattern \\\\(.), got %s", re.String())
	}
	// first decide the match structure (forks happen here, outside nested calls)
	type blk struct{ at int }
	var blocks []blk
	i := 0
	for i < len(ss.B) {
		if i+1 < len(ss.B) && s.byteIs(ss.B[i], '\\') && !s.byteIs(ss.B[i+1], '\n') {
			if c, ok := ss.B[i+1].(uint64); ok && c >= 0x80 {
				s.abort("unescape of a non-ASCII character next to symbolic bytes is not modelled")
			}
			blocks = append(blocks, blk{i})
			i += 2
			continue
		}
		i++
	}
	out := &SymStr{}
	last := 0
	for _, b := range blocks {
		out.B = append(out.B, ss.B[last:b.at]...)
		r := s.callNested(fv, []Value{s.normStr(&SymStr{B: ss.B[b.at : b.at+2]})})
		rs := toSymStr(r)
		if rs == nil {
			s.abort("ReplaceAllStringFunc callback returned %T", r)
		}
		out.B = append(out.B, rs.B...)
		last = b.at + 2
	}
	out.B = append(out.B, ss.B[last:]...)
	return s.normStr(out)
}

// FindStringSubmatch for `\\(.)` on a two-byte block.
func (s *State) symFindSubmatch(re *regexp.Regexp, ss *SymStr) Value {
	if re.String() != `\\(.)` || len(ss.B) != 2 {
		s.abort("FindStringSubmatch on symbolic bytes is modelled only for \\\\(.) on a matched block")
	}
	if !s.byteIs(ss.B[0], '\\') || s.byteIs(ss.B[1], '\n') {
		return Slice{}
	}
	arr := &Array{E: []Value{s.normStr(ss), s.normStr(&SymStr{B: ss.B[1:2]})}}
	id := s.heap.alloc(arr, types.Typ[types.String], "")
	return Slice{Obj: id, Len: 2, Cap: 2}
}

// Atoi on symbolic digits: exact when every byte is a digit (optional sign).
func (s *State) symAtoi(ss *SymStr) Value {
	p := s.W.Pool
	if len(ss.B) == 0 {
		_, err := strconv.Atoi("")
		return Tuple{int64(0), s.hostError(err)}
	}
	if len(ss.B) > 18 {
		// may overflow: explore both outcomes (approximate)
		key := fmt.Sprintf("in:approx:atoi#%d", s.approxCount())
		alt, chosen := s.choiceFor(key)
		if !chosen {
			s.fork(key, 2, func(n *State, i int) {})
		}
		s.bumpApprox()
		s.Approx = true
		if alt == 0 {
			return Tuple{p.Var(fmt.Sprintf("int!atoi%d", s.approxCount()), BV(64)), Iface{}}
		}
		_, err := strconv.Atoi("99999999999999999999")
		return Tuple{int64(0), s.hostError(err)}
	}
	neg := false
	start := 0
	if s.byteIs(ss.B[0], '-') {
		neg = true
		start = 1
	} else if s.byteIs(ss.B[0], '+') {
		start = 1
	}
	if start == len(ss.B) {
		_, err := strconv.Atoi("+")
		return Tuple{int64(0), s.hostError(err)}
	}
	var acc *Term = p.BVConst(0, 64)
	for _, b := range ss.B[start:] {
		if !s.byteIn(b, '0', '9') {
			_, err := strconv.Atoi("x")
			return Tuple{int64(0), s.hostError(err)}
		}
		d := p.App("bvsub", BV(64), p.ZeroExtend(s.byteTerm(b), 64), p.BVConst('0', 64))
		acc = p.App("bvadd", BV(64), p.App("bvmul", BV(64), acc, p.BVConst(10, 64)), d)
	}
	if neg {
		acc = p.App("bvneg", BV(64), acc)
	}
	return Tuple{acc, Iface{}}
}

// ParseFloat on symbolic bytes: exact for pure digit strings, otherwise both
// outcomes (approximate).
func (s *State) symParseFloat(ss *SymStr) Value {
	p := s.W.Pool
	key := fmt.Sprintf("in:approx:parsefloat#%d", s.approxCount())
	alt, chosen := s.choiceFor(key)
	if !chosen {
		s.fork(key, 2, func(n *State, i int) {})
	}
	s.bumpApprox()
	s.Approx = true
	if alt == 0 {
		f := s.W.floatVar(fmt.Sprintf("float!pf%d", s.approxCount()))
		s.assume(p.Not(p.App("fp.isNaN", SortBool, f)))
		s.assume(p.Not(p.App("fp.isInfinite", SortBool, f)))
		return Tuple{f, Iface{}}
	}
	_, err := strconv.ParseFloat("1x", 64)
	return Tuple{float64(0), s.hostError(err)}
}

// json.Unmarshal of a quoted JSON string with symbolic ASCII bytes into *string.
func (s *State) symJSONUnmarshalString(elems []Value, target Ptr) Value {
	fail := func(msg string) Value {
		return s.hostError(errors.New(msg))
	}
	n := len(elems)
	if n < 2 || !s.byteIs(elems[0], '"') {
		return fail("invalid character looking for beginning of value")
	}
	out := &SymStr{}
	i := 1
	for {
		if i >= n {
			return fail("unexpected end of JSON input")
		}
		b := elems[i]
		if s.byteIs(b, '"') {
			if i != n-1 {
				return fail("invalid character after top-level value")
			}
			break
		}
		if s.byteIn(b, 0, 0x1f) {
			return fail("invalid character in string literal")
		}
		if s.byteIs(b, '\\') {
			if i+1 >= n {
				return fail("unexpected end of JSON input")
			}
			e := elems[i+1]
			switch {
			case s.byteIs(e, '"'), s.byteIs(e, '\\'), s.byteIs(e, '/'):
				out.B = append(out.B, e)
			case s.byteIs(e, 'b'):
				out.B = append(out.B, uint64('\b'))
			case s.byteIs(e, 'f'):
				out.B = append(out.B, uint64('\f'))
			case s.byteIs(e, 'n'):
				out.B = append(out.B, uint64('\n'))
			case s.byteIs(e, 'r'):
				out.B = append(out.B, uint64('\r'))
			case s.byteIs(e, 't'):
				out.B = append(out.B, uint64('\t'))
			case s.byteIs(e, 'u'):
				// \uXXXX with concrete hex digits only
				if i+5 >= n {
					return fail("unexpected end of JSON input")
				}
				var hex []byte
				for k := 2; k <= 5; k++ {
					hex = append(hex, s.concreteByte(elems[i+k], "hex digit of a \\u escape"))
				}
				var dec string
				text := `\u` + string(hex)
				consumed := 6
				// a high surrogate directly followed by another \uXXXX escape is decoded as a pair by the host
				hi, _ := strconv.ParseUint(string(hex), 16, 32)
				if hi >= 0xD800 && hi <= 0xDBFF && i+11 < n && s.byteIs(elems[i+6], '\\') && s.byteIs(elems[i+7], 'u') {
					var hex2 []byte
					for k := 8; k <= 11; k++ {
						hex2 = append(hex2, s.concreteByte(elems[i+k], "hex digit of a \\u escape"))
					}
					text += `\u` + string(hex2)
					consumed = 12
				}
				if err := jsonUnmarshalHost(`"`+text+`"`, &dec); err != nil {
					return fail(err.Error())
				}
				for k := 0; k < len(dec); k++ {
					out.B = append(out.B, uint64(dec[k]))
				}
				i += consumed
				continue
			default:
				return fail("invalid character in string escape code")
			}
			i += 2
			continue
		}
		if c, ok := b.(uint64); ok && c >= 0x80 {
			// copy a maximal run of concrete non-ASCII bytes through the host decoder
			j := i
			var run []byte
			for j < n {
				cc, ok := elems[j].(uint64)
				if !ok || cc < 0x80 {
					break
				}
				run = append(run, byte(cc))
				j++
			}
			var dec string
			if err := jsonUnmarshalHost(`"`+string(run)+`"`, &dec); err != nil {
				return fail(err.Error())
			}
			for k := 0; k < len(dec); k++ {
				out.B = append(out.B, uint64(dec[k]))
			}
			i = j
			continue
		}
		out.B = append(out.B, b)
		i++
	}
	s.store(target, s.normStr(out))
	return Iface{}
}

// concreteByte returns the value of a byte, forking over its feasible values
// when it is symbolic (bounded: at most 32 values).
func (s *State) concreteByte(b Value, what string) byte {
	switch x := b.(type) {
	case uint64:
		return byte(x)
	case *Term:
		if x.IsConst() {
			return byte(x.UVal)
		}
		if x.Op != "var" {
			s.abort("concreteByte: %s is a compound term", what)
		}
		dom := s.byteDomain(x)
		var vals []int
		for v := 0; v < 256; v++ {
			if dom.has(v) {
				vals = append(vals, v)
			}
		}
		if len(vals) == 0 {
			panic(skipReq{msg: "infeasible path (empty byte domain)"})
		}
		if len(vals) == 1 {
			return byte(vals[0])
		}
		if len(vals) > 32 {
			s.abort("unwinding bound: %d feasible values for %s", len(vals), what)
		}
		p := s.W.Pool
		s.fork("byte:"+x.Name, len(vals), func(n *State, i int) {
			n.assume(p.Eq(x, p.BVConst(uint64(vals[i]), 8)))
		})
	}
	s.abort("concreteByte: %T", b)
	return 0
}
