package engine

import "regexp"

// Models of library calls on strings with symbolic bytes (C02/C16/C17).
// Filled in by symbytes_models.go; the defaults abort as inconclusive.

type symRegexp struct{}

func (s *State) symRegexpCompile(pat Value) Value {
	s.abort("regexp.Compile on a pattern with symbolic bytes is not modelled")
	return nil
}

func (s *State) symReplaceAll(re *regexp.Regexp, ss *SymStr, fv *FuncV) Value {
	s.abort("ReplaceAllStringFunc on a string with symbolic bytes is not modelled")
	return nil
}

func (s *State) symAtoi(ss *SymStr) Value {
	s.abort("Atoi on a string with symbolic bytes is not modelled")
	return nil
}

func (s *State) symParseFloat(ss *SymStr) Value {
	s.abort("ParseFloat on a string with symbolic bytes is not modelled")
	return nil
}

func (s *State) symJSONUnmarshalString(elems []Value, target Ptr) Value {
	s.abort("json.Unmarshal on symbolic bytes is not modelled")
	return nil
}
