package engine

import (
	"fmt"
	"go/types"
	"regexp"
	"sort"
	"strings"
	"time"
)

// Job is one harness instantiation: a harness function plus parameters.
type Job struct {
	ID               string
	Harness          string            // function name in package jsonpath
	Params           map[string]string // concrete parameters (path text, config variant, ...)
	Docs             map[string]*DocCfg
	MapOrder         string // desc (default) | asc | insertion | perm
	PoolMode         string // lifo (default) | fresh | fifo | any
	Fuel             int
	MaxDepth         int
	MaxPaths         int
	TrackAccess      bool
	DepthIsViolation bool // exceeding the call-depth bound is a violation candidate (C02), not merely inconclusive
	TimeLimit        time.Duration
	Budget           int                  // path budget before falling back to Narrow[i]
	Narrow           []map[string]*DocCfg // successively narrower document bounds

	nodes    map[string]*DocNode
	nodeList []*DocNode
	opaque   []Iface
	strIDs   map[string]int64
	strByID  map[int64]string
	regexUFs map[string]*regexp.Regexp
}

func (j *Job) reset() {
	j.nodes = map[string]*DocNode{}
	j.nodeList = nil
	j.opaque = nil
	j.strIDs = map[string]int64{}
	j.strByID = map[int64]string{}
	j.regexUFs = map[string]*regexp.Regexp{}
}

// PathResult summarises one completed symbolic path.
type PathResult struct {
	Status  PathStatus
	Msg     string
	Choices []Choice
	Viol    []Violation
	Fixture *Fixture // concrete witness of this path (nil if not requested / unsat)
	Out     map[string]string
	Asserts []string // labels of assertions reached
	Steps   int
}

// JobResult is the outcome of exploring one job.
type JobResult struct {
	Job       *Job
	Paths     []PathResult
	NPaths    int
	BoundUsed int // 0 = the job's own bound, i = Narrow[i-1]
	NDone     int
	NSkipped  int
	NAborted  int
	NPanicked int
	NViol     int
	Forks     int
	Queries   int
	Elapsed   time.Duration
	Truncated bool
	// CutByBudget: the run's exploration budget ended while the job was being explored;
	// unless it already holds a violation it is reported as not run.
	CutByBudget bool
	AbortMsgs []string
	Labels    map[string]int // assertion label -> times reached
}

// Explore runs the job's harness over all symbolic paths (DFS). If the job
// has a path budget and narrower document bounds to fall back to, a run that
// exceeds the budget is discarded and repeated under the next narrower bound;
// the bound actually used is recorded in the result.
func (w *Worker) Explore(job *Job, wantFixtures bool) *JobResult {
	if job.Budget > 0 && len(job.Narrow) > 0 {
		orig := job.Docs
		saved := job.MaxPaths
		for i := -1; i < len(job.Narrow); i++ {
			if i >= 0 {
				job.Docs = job.Narrow[i]
			}
			job.MaxPaths = job.Budget
			if i == len(job.Narrow)-1 {
				job.MaxPaths = saved
			}
			r := w.exploreOnce(job, wantFixtures)
			if !r.Truncated || i == len(job.Narrow)-1 {
				r.BoundUsed = i + 1
				job.MaxPaths = saved
				_ = orig
				return r
			}
		}
	}
	return w.exploreOnce(job, wantFixtures)
}

func (w *Worker) exploreOnce(job *Job, wantFixtures bool) *JobResult {
	t0 := time.Now()
	job.reset()
	w.Job = job
	if job.Fuel > 0 {
		w.FuelPerPath = job.Fuel
	} else {
		w.FuelPerPath = 5_000_000
	}
	if job.MaxDepth > 0 {
		w.MaxDepth = job.MaxDepth
	} else {
		w.MaxDepth = 400
	}
	res := &JobResult{Job: job, Labels: map[string]int{}}
	fn := w.P.Pkg.Func(job.Harness)
	if fn == nil {
		res.NAborted++
		res.AbortMsgs = append(res.AbortMsgs, "harness function not found: "+job.Harness)
		return res
	}
	st := w.P.NewState(w)
	if job.TrackAccess {
		st.AccessLog = newAccessLog()
	}
	st.pushCall(&FuncV{Fn: fn}, nil, -1, false)
	q0 := w.Solver.Queries
	f0 := w.Forks
	stack := []*State{st}
	violSeen := map[string]int{}
	nWitness := 0
	maxPaths := job.MaxPaths
	if maxPaths == 0 {
		maxPaths = 200000
	}
	for len(stack) > 0 {
		cur := stack[len(stack)-1]
		stack = stack[:len(stack)-1]
		if cur.Status == PathRunning {
			kids := w.RunPath(cur)
			if len(kids) > 0 {
				for i := len(kids) - 1; i >= 0; i-- {
					stack = append(stack, kids[i])
				}
				continue
			}
		}
		w.Paths++
		res.NPaths++
		for _, l := range cur.Log {
			if strings.HasPrefix(l, "assert:") {
				res.Labels[l[7:]]++
			}
		}
		switch cur.Status {
		case PathDone:
			res.NDone++
		case PathSkipped:
			res.NSkipped++
		case PathAborted:
			res.NAborted++
			if len(res.AbortMsgs) < 20 {
				res.AbortMsgs = append(res.AbortMsgs, cur.AbortMsg)
			}
		case PathPanicked:
			res.NPanicked++
			cur.recordViolation("uncaught-panic", "a Go panic escaped the harness: "+show(cur.panicVal))
		}
		if len(cur.Viol) > 0 {
			res.NViol++
		}
		keep := false
		var fx *Fixture
		switch {
		case len(cur.Viol) > 0:
			// keep a bounded number of violating paths per label set
			key := ""
			for _, v := range cur.Viol {
				key += v.Label + ","
			}
			violSeen[key]++
			if violSeen[key] <= 3 {
				fx = w.buildFixture(cur)
				keep = true
			}
		case cur.Status == PathAborted:
			keep = res.NAborted <= 5
		case wantFixtures && cur.Status == PathDone:
			// sample witnesses: the first two paths and a pseudo-random 1 in 64 after that, at most 8 per job
			if nWitness < 8 && (res.NDone <= 2 || (uint32(res.NDone)*2654435761)>>26 == 0) {
				fx = w.buildFixture(cur)
				if fx == nil {
					res.NAborted++
					res.AbortMsgs = append(res.AbortMsgs, "no model for a completed path")
				} else {
					nWitness++
					keep = true
				}
			}
		}
		if keep {
			res.Paths = append(res.Paths, PathResult{Status: cur.Status, Msg: cur.AbortMsg, Choices: cur.choices, Viol: cur.Viol, Steps: cur.steps, Fixture: fx})
		}
		if res.NPaths >= maxPaths || (job.TimeLimit > 0 && time.Since(t0) > job.TimeLimit) {
			res.Truncated = true
			break
		}
		if !ExploreDeadline.IsZero() && time.Now().After(ExploreDeadline.Add(30*time.Second)) {
			// the run's time budget (plus a grace period) ended while this job was in flight
			res.CutByBudget = true
			break
		}
	}
	res.Forks = w.Forks - f0
	res.Queries = w.Solver.Queries - q0
	res.Elapsed = time.Since(t0)
	return res
}

func (s *State) recordViolation(label, detail string) {
	for _, v := range s.Viol {
		if v.Label == label && v.Detail == detail {
			return
		}
	}
	s.Viol = append(s.Viol, Violation{Label: label, Detail: detail})
}

// Fixture is a concrete instance of a symbolic path: everything the native
// replay shim needs to rebuild the inputs.
type Fixture struct {
	Harness string                 `json:"harness"`
	JobID   string                 `json:"job"`
	Params  map[string]string      `json:"params"`
	Ints    map[string]int64       `json:"ints,omitempty"`
	Floats  map[string]string      `json:"floats,omitempty"` // hex bits
	Bools   map[string]bool        `json:"bools,omitempty"`
	Bytes   map[string]int         `json:"bytes,omitempty"`
	Holes   map[string]string      `json:"holes,omitempty"` // numeral text -> replacement literal
	Docs    map[string]interface{} `json:"docs,omitempty"`
	Choices map[string]int         `json:"choices,omitempty"`
	Out     map[string]string      `json:"out,omitempty"`        // engine-predicted outputs
	Viol    []string               `json:"violations,omitempty"` // labels the engine predicts to fail
	Panics  bool                   `json:"panics,omitempty"`
	Approx  bool                   `json:"approx,omitempty"` // an over-approximating stub was used: outputs are not predicted
}

func sortedNames(m map[string]*Term) []string {
	var out []string
	for k := range m {
		out = append(out, k)
	}
	sort.Strings(out)
	return out
}

var _ = fmt.Sprint
var _ = types.Typ
