package engine

import (
	"fmt"
	"math"
	"sort"
	"strconv"
	"strings"
)

// Sort kinds of SMT terms.
type SortKind uint8

const (
	SBool SortKind = iota
	SBV
	SFP  // Float64
	SInt // mathematical integer (string identities, finite-domain links)
)

type Sort struct {
	K SortKind
	W int // bit width for SBV
}

func (s Sort) String() string {
	switch s.K {
	case SBool:
		return "Bool"
	case SBV:
		return fmt.Sprintf("(_ BitVec %d)", s.W)
	case SFP:
		return "(_ FloatingPoint 11 53)"
	case SInt:
		return "Int"
	}
	return "?"
}

var (
	SortBool = Sort{K: SBool}
	SortFP   = Sort{K: SFP}
	SortInt  = Sort{K: SInt}
)

func BV(w int) Sort { return Sort{K: SBV, W: w} }

// Term is an immutable SMT term. Terms are structurally hashed per TermPool so
// pointer equality is structural equality.
type Term struct {
	Op   string // "var", "const", or SMT operator text
	Args []*Term
	S    Sort
	Name string // var name, or literal text for const
	UVal uint64 // for BV const
	BVal bool   // for Bool const
	str  string
	id   int
}

func (t *Term) IsConst() bool { return t.Op == "const" }

func (t *Term) String() string { return t.str }

// TermPool hash-conses terms. One per worker (no locking).
type TermPool struct {
	tab  map[string]*Term
	Vars map[string]*Term // declared variables (name -> var term)
	UFs  map[string]string
	n    int
}

func NewTermPool() *TermPool {
	return &TermPool{tab: map[string]*Term{}, Vars: map[string]*Term{}, UFs: map[string]string{}}
}

func (p *TermPool) intern(t *Term) *Term {
	if old, ok := p.tab[t.str]; ok && old.S == t.S {
		return old
	}
	p.n++
	t.id = p.n
	p.tab[t.str] = t
	return t
}

func smtName(name string) string {
	return "|" + strings.NewReplacer("|", "_", "\\", "_").Replace(name) + "|"
}

func (p *TermPool) Var(name string, s Sort) *Term {
	if v, ok := p.Vars[name]; ok {
		if v.S != s {
			panic(fmt.Sprintf("var %s redeclared with another sort", name))
		}
		return v
	}
	t := p.intern(&Term{Op: "var", S: s, Name: name, str: smtName(name)})
	p.Vars[name] = t
	return t
}

func (p *TermPool) Bool(b bool) *Term {
	s := "false"
	if b {
		s = "true"
	}
	return p.intern(&Term{Op: "const", S: SortBool, BVal: b, str: s})
}

func maskW(v uint64, w int) uint64 {
	if w >= 64 {
		return v
	}
	return v & ((uint64(1) << uint(w)) - 1)
}

func (p *TermPool) BVConst(v uint64, w int) *Term {
	v = maskW(v, w)
	var s string
	if w%4 == 0 && w <= 64 {
		s = fmt.Sprintf("#x%0*x", w/4, v)
	} else if w <= 64 {
		s = fmt.Sprintf("(_ bv%d %d)", v, w)
	} else {
		panic("wide const via BVConst")
	}
	return p.intern(&Term{Op: "const", S: BV(w), UVal: v, str: s})
}

func (p *TermPool) IntConst(v int64) *Term {
	s := strconv.FormatInt(v, 10)
	if v < 0 {
		s = "(- " + strconv.FormatInt(-v, 10) + ")"
	}
	return p.intern(&Term{Op: "const", S: SortInt, UVal: uint64(v), str: s})
}

func (p *TermPool) FPConst(f float64) *Term {
	bits := math.Float64bits(f)
	s := fmt.Sprintf("((_ to_fp 11 53) #x%016x)", bits)
	return p.intern(&Term{Op: "const", S: SortFP, UVal: bits, str: s})
}

// App builds an application with light simplification.
func (p *TermPool) App(op string, s Sort, args ...*Term) *Term {
	if t := p.simplify(op, s, args); t != nil {
		return t
	}
	var sb strings.Builder
	sb.WriteByte('(')
	sb.WriteString(op)
	for _, a := range args {
		sb.WriteByte(' ')
		sb.WriteString(a.str)
	}
	sb.WriteByte(')')
	return p.intern(&Term{Op: op, Args: args, S: s, str: sb.String()})
}

func signExt(v uint64, w int) int64 {
	if w >= 64 {
		return int64(v)
	}
	sh := uint(64 - w)
	return int64(v<<sh) >> sh
}

func (p *TermPool) simplify(op string, s Sort, a []*Term) *Term {
	allConst := true
	for _, x := range a {
		if !x.IsConst() {
			allConst = false
			break
		}
	}
	switch op {
	case "not":
		if a[0].IsConst() {
			return p.Bool(!a[0].BVal)
		}
		if a[0].Op == "not" {
			return a[0].Args[0]
		}
	case "and":
		var keep []*Term
		for _, x := range a {
			if x.IsConst() {
				if !x.BVal {
					return p.Bool(false)
				}
				continue
			}
			keep = append(keep, x)
		}
		if len(keep) == 0 {
			return p.Bool(true)
		}
		if len(keep) == 1 {
			return keep[0]
		}
		if len(keep) != len(a) {
			return p.App("and", s, keep...)
		}
	case "or":
		var keep []*Term
		for _, x := range a {
			if x.IsConst() {
				if x.BVal {
					return p.Bool(true)
				}
				continue
			}
			keep = append(keep, x)
		}
		if len(keep) == 0 {
			return p.Bool(false)
		}
		if len(keep) == 1 {
			return keep[0]
		}
		if len(keep) != len(a) {
			return p.App("or", s, keep...)
		}
	case "ite":
		if a[0].IsConst() {
			if a[0].BVal {
				return a[1]
			}
			return a[2]
		}
		if a[1] == a[2] {
			return a[1]
		}
	case "=":
		if a[0] == a[1] && a[0].S.K != SFP {
			return p.Bool(true)
		}
		if a[0] == a[1] && a[0].S.K == SFP {
			// SMT "=" on FP is bit identity except all NaNs are equal: reflexive.
			return p.Bool(true)
		}
		if allConst {
			switch a[0].S.K {
			case SBool:
				return p.Bool(a[0].BVal == a[1].BVal)
			case SBV, SInt:
				return p.Bool(a[0].UVal == a[1].UVal)
			}
		}
	}
	if !allConst || len(a) == 0 {
		return nil
	}
	if a[0].S.K == SBV {
		w := a[0].S.W
		if w > 64 {
			return nil
		}
		x := a[0].UVal
		var y uint64
		if len(a) > 1 {
			y = a[1].UVal
		}
		sx, sy := signExt(x, w), signExt(y, w)
		switch op {
		case "bvadd":
			return p.BVConst(x+y, w)
		case "bvsub":
			return p.BVConst(x-y, w)
		case "bvmul":
			return p.BVConst(x*y, w)
		case "bvneg":
			return p.BVConst(-x, w)
		case "bvnot":
			return p.BVConst(^x, w)
		case "bvand":
			return p.BVConst(x&y, w)
		case "bvor":
			return p.BVConst(x|y, w)
		case "bvxor":
			return p.BVConst(x^y, w)
		case "bvult":
			return p.Bool(x < y)
		case "bvule":
			return p.Bool(x <= y)
		case "bvugt":
			return p.Bool(x > y)
		case "bvuge":
			return p.Bool(x >= y)
		case "bvslt":
			return p.Bool(sx < sy)
		case "bvsle":
			return p.Bool(sx <= sy)
		case "bvsgt":
			return p.Bool(sx > sy)
		case "bvsge":
			return p.Bool(sx >= sy)
		}
	}
	return nil
}

func (p *TermPool) Not(a *Term) *Term { return p.App("not", SortBool, a) }
func (p *TermPool) And(a ...*Term) *Term {
	if len(a) == 0 {
		return p.Bool(true)
	}
	if len(a) == 1 {
		return a[0]
	}
	return p.App("and", SortBool, a...)
}
func (p *TermPool) Or(a ...*Term) *Term {
	if len(a) == 0 {
		return p.Bool(false)
	}
	if len(a) == 1 {
		return a[0]
	}
	return p.App("or", SortBool, a...)
}
func (p *TermPool) Eq(a, b *Term) *Term     { return p.App("=", SortBool, a, b) }
func (p *TermPool) Ite(c, a, b *Term) *Term { return p.App("ite", a.S, c, a, b) }

// Extend/extract helpers.
func (p *TermPool) SignExtend(t *Term, to int) *Term {
	if t.S.W == to {
		return t
	}
	if t.IsConst() && to <= 64 {
		return p.BVConst(uint64(signExt(t.UVal, t.S.W)), to)
	}
	return p.App(fmt.Sprintf("(_ sign_extend %d)", to-t.S.W), BV(to), t)
}
func (p *TermPool) ZeroExtend(t *Term, to int) *Term {
	if t.S.W == to {
		return t
	}
	if t.IsConst() && to <= 64 {
		return p.BVConst(t.UVal, to)
	}
	return p.App(fmt.Sprintf("(_ zero_extend %d)", to-t.S.W), BV(to), t)
}
func (p *TermPool) Extract(t *Term, hi, lo int) *Term {
	if hi-lo+1 == t.S.W {
		return t
	}
	if t.IsConst() && t.S.W <= 64 {
		return p.BVConst(t.UVal>>uint(lo), hi-lo+1)
	}
	// extract of zero_extend of a narrower term
	if strings.HasPrefix(t.Op, "(_ zero_extend") && lo == 0 && t.Args[0].S.W == hi+1 {
		return t.Args[0]
	}
	if strings.HasPrefix(t.Op, "(_ sign_extend") && lo == 0 && t.Args[0].S.W == hi+1 {
		return t.Args[0]
	}
	return p.App(fmt.Sprintf("(_ extract %d %d)", hi, lo), BV(hi-lo+1), t)
}

// UF declares (once) and applies an uninterpreted function.
func (p *TermPool) UF(name string, ret Sort, args ...*Term) *Term {
	var sb strings.Builder
	sb.WriteString("(declare-fun " + smtName(name) + " (")
	for i, a := range args {
		if i > 0 {
			sb.WriteByte(' ')
		}
		sb.WriteString(a.S.String())
	}
	sb.WriteString(") " + ret.String() + ")")
	p.UFs[name] = sb.String()
	return p.App(smtName(name), ret, args...)
}

// Decls returns SMT declarations for all variables and UFs, in stable order.
func (p *TermPool) Decls(skip map[string]bool) []string {
	var names []string
	for n := range p.Vars {
		if !skip["v:"+n] {
			names = append(names, n)
		}
	}
	sort.Strings(names)
	var out []string
	for _, n := range names {
		out = append(out, fmt.Sprintf("(declare-const %s %s)", smtName(n), p.Vars[n].S))
		skip["v:"+n] = true
	}
	var ufs []string
	for n := range p.UFs {
		if !skip["f:"+n] {
			ufs = append(ufs, n)
		}
	}
	sort.Strings(ufs)
	for _, n := range ufs {
		out = append(out, p.UFs[n])
		skip["f:"+n] = true
	}
	return out
}

// collectVars returns the variables occurring in t.
func collectVars(t *Term, seen map[*Term]bool, out *[]*Term) {
	if seen[t] {
		return
	}
	seen[t] = true
	if t.Op == "var" {
		*out = append(*out, t)
		return
	}
	for _, a := range t.Args {
		collectVars(a, seen, out)
	}
}
