package engine

import (
	"fmt"
	"go/types"
	"strings"

	"golang.org/x/tools/go/ssa"
)

// Value is an interpreter value. Dynamic types used:
//
//	bool, int64 (all signed ints), uint64 (all unsigned ints), float64,
//	string, *Term (symbolic scalar), *SymStr, *AbsStr,
//	Ptr, Slice, MapRef, Iface, *SymIface, *FuncV, *Struct, *Array, Tuple,
//	HostV, complex128
type Value interface{}

// Ptr points into a heap object. Obj==0 is nil.
type Ptr struct {
	Obj  int
	Path string // encoded path of indices below the object's root value
}

// Slice header. Obj==0 is the nil slice. The backing array lives at (Obj,Path).
type Slice struct {
	Obj           int
	Path          string
	Off, Len, Cap int
}

// MapRef refers to a map object. Obj==0 is the nil map.
type MapRef struct{ Obj int }

// Iface is an interface value; T==nil is the nil interface.
type Iface struct {
	T types.Type
	V Value
}

// SymIface is a lazily resolved symbolic interface{} (a document node).
type SymIface struct{ Node *DocNode }

// FuncV is a function value. nil *FuncV is the nil func.
type FuncV struct {
	Fn   *ssa.Function
	Bind []Value
	Host string // name of a host/intrinsic implementation when Fn==nil
	Recv Value  // bound receiver for host method values
}

type Struct struct{ F []Value }
type Array struct{ E []Value }
type Tuple []Value

// HostV wraps an opaque host object (regexp, host error, ...).
type HostV struct{ V interface{} }

// SymStr is a string with (possibly) symbolic bytes. Each element is uint64
// (concrete byte) or *Term of sort BV8.
type SymStr struct{ B []Value }

// AbsStr is an abstract string known only by identity: an Int-sorted term.
type AbsStr struct{ Id *Term }

func pathAppend(p string, i int) string {
	return p + string([]byte{byte(i >> 16), byte(i >> 8), byte(i)})
}

func pathElems(p string) []int {
	out := make([]int, 0, len(p)/3)
	for k := 0; k+2 < len(p); k += 3 {
		out = append(out, int(p[k])<<16|int(p[k+1])<<8|int(p[k+2]))
	}
	return out
}

// copyVal deep-copies aggregate values (structs and arrays have value
// semantics); everything else is immutable and shared.
func copyVal(v Value) Value {
	switch x := v.(type) {
	case *Struct:
		n := &Struct{F: make([]Value, len(x.F))}
		for i, f := range x.F {
			n.F[i] = copyVal(f)
		}
		return n
	case *Array:
		n := &Array{E: make([]Value, len(x.E))}
		for i, f := range x.E {
			n.E[i] = copyVal(f)
		}
		return n
	}
	return v
}

// zero returns the zero value of t.
func zero(t types.Type) Value {
	switch u := t.Underlying().(type) {
	case *types.Basic:
		switch {
		case u.Info()&types.IsBoolean != 0:
			return false
		case u.Info()&types.IsString != 0:
			return ""
		case u.Info()&types.IsUnsigned != 0:
			return uint64(0)
		case u.Info()&types.IsInteger != 0:
			return int64(0)
		case u.Info()&types.IsFloat != 0:
			return float64(0)
		case u.Info()&types.IsComplex != 0:
			return complex128(0)
		case u.Kind() == types.UnsafePointer:
			return Ptr{}
		case u.Kind() == types.UntypedNil:
			return Iface{}
		}
	case *types.Pointer:
		return Ptr{}
	case *types.Slice:
		return Slice{}
	case *types.Map:
		return MapRef{}
	case *types.Chan:
		return Ptr{}
	case *types.Signature:
		return (*FuncV)(nil)
	case *types.Interface:
		return Iface{}
	case *types.Struct:
		s := &Struct{F: make([]Value, u.NumFields())}
		for i := range s.F {
			s.F[i] = zero(u.Field(i).Type())
		}
		return s
	case *types.Array:
		a := &Array{E: make([]Value, int(u.Len()))}
		for i := range a.E {
			a.E[i] = zero(u.Elem())
		}
		return a
	case *types.Tuple:
		tu := make(Tuple, u.Len())
		for i := range tu {
			tu[i] = zero(u.At(i).Type())
		}
		return tu
	}
	panic(fmt.Sprintf("zero: unsupported type %s", t))
}

// reflectName prints a type the way reflect.Type.String does.
func reflectName(t types.Type) string {
	s := types.TypeString(t, func(p *types.Package) string { return p.Name() })
	s = strings.ReplaceAll(s, "interface{}", "interface {}")
	s = strings.ReplaceAll(s, "struct{}", "struct {}")
	if s == "any" {
		return "interface {}"
	}
	s = strings.ReplaceAll(s, "]any", "]interface {}")
	s = wordReplace(s, "byte", "uint8")
	s = wordReplace(s, "rune", "int32")
	return s
}

func isInterface(t types.Type) bool {
	_, ok := t.Underlying().(*types.Interface)
	return ok
}

func basicKind(t types.Type) *types.Basic {
	b, _ := t.Underlying().(*types.Basic)
	return b
}

// intWidth returns bit width and signedness for an integer basic type.
func intWidth(b *types.Basic) (int, bool) {
	switch b.Kind() {
	case types.Int8:
		return 8, true
	case types.Int16:
		return 16, true
	case types.Int32:
		return 32, true
	case types.Int64, types.Int, types.UntypedInt:
		return 64, true
	case types.Uint8:
		return 8, false
	case types.Uint16:
		return 16, false
	case types.Uint32:
		return 32, false
	case types.Uint64, types.Uint, types.Uintptr:
		return 64, false
	case types.UntypedRune:
		return 32, true
	}
	return 0, false
}

func normInt(v int64, w int) int64 {
	if w >= 64 {
		return v
	}
	sh := uint(64 - w)
	return v << sh >> sh
}

func normUint(v uint64, w int) uint64 { return maskW(v, w) }

// show renders a value for diagnostics.
func show(v Value) string {
	switch x := v.(type) {
	case nil:
		return "<nil>"
	case *Term:
		return x.str
	case Iface:
		if x.T == nil {
			return "nil"
		}
		return fmt.Sprintf("%s(%s)", reflectName(x.T), show(x.V))
	case *SymIface:
		return "sym:" + x.Node.Name
	case *Struct:
		parts := make([]string, len(x.F))
		for i, f := range x.F {
			parts[i] = show(f)
		}
		return "{" + strings.Join(parts, ",") + "}"
	case *Array:
		return fmt.Sprintf("[%d]array", len(x.E))
	case *FuncV:
		if x == nil {
			return "nilfunc"
		}
		if x.Fn != nil {
			return "func:" + x.Fn.String()
		}
		return "host:" + x.Host
	case *AbsStr:
		return "str#" + x.Id.str
	case *SymStr:
		return fmt.Sprintf("symstr[%d]", len(x.B))
	}
	return fmt.Sprintf("%v", v)
}

func isIdentByte(c byte) bool {
	return c == '_' || c == '.' || (c >= '0' && c <= '9') || (c >= 'a' && c <= 'z') || (c >= 'A' && c <= 'Z')
}

// wordReplace replaces whole-word occurrences of old (not part of an identifier).
func wordReplace(s, old, new string) string {
	var sb strings.Builder
	i := 0
	for i < len(s) {
		j := strings.Index(s[i:], old)
		if j < 0 {
			break
		}
		j += i
		end := j + len(old)
		before := j == 0 || !isIdentByte(s[j-1])
		after := end == len(s) || !isIdentByte(s[end])
		sb.WriteString(s[i:j])
		if before && after {
			sb.WriteString(new)
		} else {
			sb.WriteString(old)
		}
		i = end
	}
	sb.WriteString(s[i:])
	return sb.String()
}
