package engine

import (
	"encoding/json"
	"fmt"
	"go/types"
	"math"
	"sort"
	"strconv"
	"strings"
)

type intrinsicFn func(s *State, args []Value) Value

var intrinsics = map[string]intrinsicFn{}

func init() {
	for k, v := range map[string]intrinsicFn{
		"zzParam":         zzParam,
		"zzPath":          zzParam,
		"zzInt":           zzInt,
		"zzIntRange":      zzIntRange,
		"zzFloat":         zzFloat,
		"zzBool":          zzBool,
		"zzByte":          zzByte,
		"zzHoleInt":       zzHoleInt,
		"zzHoleIntErr":    zzHoleIntErr,
		"zzHoleFloat":     zzHoleFloat,
		"zzDoc":           zzDoc,
		"zzAssume":        zzAssume,
		"zzAssert":        zzAssert,
		"zzFail":          zzFail,
		"zzSame":          zzSame,
		"zzDocUnchanged":  zzDocUnchanged,
		"zzOut":           zzOut,
		"zzSnap":          zzSnap,
		"zzOutStr":        zzOutStr,
		"zzKindOf":        zzKindOf,
		"zzLog":           zzLog,
		"zzIsNaN":         zzIsNaN,
		"zzFloatEq":       zzFloatEq,
		"zzNumValue":      zzNumValue,
		"zzStrEq":         zzStrEq,
		"zzMutexFree":     zzMutexFree,
		"zzEngine":        func(s *State, a []Value) Value { return true },
		"zzSortedKeys":    zzSortedKeys,
		"zzSymString":     zzSymString,
		"zzEpoch":         zzEpoch,
		"zzFresh":         zzFresh,
		"zzTreeMark":      zzTreeMark,
		"zzTreeUnchanged": zzTreeUnchanged,
		"zzPoisonClean":   zzPoisonClean,
		"zzAccessStart":   zzAccessStart,
		"zzAccessCheck":   zzAccessCheck,
		"zzParserClean":   zzParserClean,
		"zzRegexMatch":    zzRegexMatch,
		"zzTypeName":      zzTypeName,
		"zzOpaqueInit":    zzOpaqueInit,
		"zzJSON":          zzJSON,
		"zzParamInt":      zzParamInt,
		"zzRepeat":        func(s *State, a []Value) Value { return int64(1) },
		"zzIsolated":      zzIsolated,
		"zzDeepEqual":     func(s *State, a []Value) Value { return s.deepEqual(a[0], a[1], 0) },
	} {
		intrinsics[k] = v
	}
}

func (s *State) strArg(v Value) string {
	str, ok := s.concreteStr(v)
	if !ok {
		s.abort("intrinsic needs a concrete string, got %T", v)
	}
	return str
}

func zzParam(s *State, a []Value) Value {
	name := s.strArg(a[0])
	v, ok := s.W.Job.Params[name]
	if !ok {
		if name == "json" || name == "shared" || name == "preboom" {
			return "" // optional: a concrete document instead of the symbolic one
		}
		s.abort("missing job parameter %q", name)
	}
	return v
}

func (s *State) noteInput(name string, v Value) {
	if s.Out == nil {
		s.Out = map[string]string{}
	}
	s.inputs()[name] = v
}

// inputs are kept in docRes under negative keys? No: a dedicated map stored in holes with a prefix.
func (s *State) inputs() map[string]Value { return s.holes }

func zzInt(s *State, a []Value) Value {
	name := s.strArg(a[0])
	t := s.W.Pool.Var("int!"+name, BV(64))
	s.holes["in:int:"+name] = t
	return t
}

func zzIntRange(s *State, a []Value) Value {
	name := s.strArg(a[0])
	lo := s.concreteInt(a[1], "lo")
	hi := s.concreteInt(a[2], "hi")
	key := "in:range:" + name
	if v, ok := s.holes[key]; ok {
		return v
	}
	if hi < lo {
		panic(skipReq{msg: "empty range"})
	}
	if lo == hi {
		s.holes[key] = lo
		return lo
	}
	s.fork("range:"+name, int(hi-lo+1), func(n *State, i int) {
		n.holes[key] = lo + int64(i)
	})
	return nil
}

func zzFloat(s *State, a []Value) Value {
	name := s.strArg(a[0])
	t := s.W.floatVar("float!" + name)
	s.holes["in:float:"+name] = t
	return t
}

func zzBool(s *State, a []Value) Value {
	name := s.strArg(a[0])
	t := s.W.Pool.Var("bool!"+name, SortBool)
	s.holes["in:bool:"+name] = t
	return t
}

func zzByte(s *State, a []Value) Value {
	name := s.strArg(a[0])
	t := s.W.Pool.Var("byte!"+name, BV(8))
	s.holes["in:byte:"+name] = t
	return t
}

func zzHoleInt(s *State, a []Value) Value {
	text := s.strArg(a[0])
	name := s.strArg(a[1])
	t := s.W.Pool.Var("int!"+name, BV(64))
	s.holes[text] = t
	s.holes["in:holeint:"+name] = text
	s.holes["in:int:"+name] = t
	return nil
}

// zzHoleIntErr makes Atoi fail on the given numeral text as it does for the
// out-of-range literal passed as second argument.
func zzHoleIntErr(s *State, a []Value) Value {
	text := s.strArg(a[0])
	repl := s.strArg(a[1])
	s.holes[text] = holeErr{text: repl}
	s.holes["in:holelit:"+text] = repl
	return nil
}

func zzHoleFloat(s *State, a []Value) Value {
	text := s.strArg(a[0])
	name := s.strArg(a[1])
	t := s.W.floatVar("float!" + name)
	// literals written in a path are finite
	p := s.W.Pool
	s.assume(p.Not(p.App("fp.isNaN", SortBool, t)))
	s.assume(p.Not(p.App("fp.isInfinite", SortBool, t)))
	s.holes[text] = t
	s.holes["in:holefloat:"+name] = text
	s.holes["in:float:"+name] = t
	return nil
}

func zzDoc(s *State, a []Value) Value {
	name := s.strArg(a[0])
	cfg := s.W.Job.Docs[name]
	if cfg == nil {
		cfg = s.W.Job.Docs["*"]
	}
	if cfg == nil {
		s.abort("no document bound configured for %q", name)
	}
	n := s.W.docNode(name, cfg.Depth, cfg, cfg.RootKinds)
	s.holes["in:doc:"+name] = &SymIface{Node: n}
	return &SymIface{Node: n}
}

func zzAssume(s *State, a []Value) Value {
	switch c := a[0].(type) {
	case bool:
		if !c {
			panic(skipReq{msg: "assumption false"})
		}
	case *Term:
		if v, ok := s.decided[c]; ok {
			if !v {
				panic(skipReq{msg: "assumption false"})
			}
			return nil
		}
		r, _ := s.W.Solver.Check(s.pc, []*Term{c}, nil)
		s.W.BranchQueries++
		if r == Unknown {
			s.abort("solver unknown in assume")
		}
		if r == Unsat {
			panic(skipReq{msg: "assumption infeasible"})
		}
		s.assume(c)
	}
	return nil
}

func zzAssert(s *State, a []Value) Value {
	label := s.strArg(a[1])
	s.Log = append(s.Log, "assert:"+label)
	switch c := a[0].(type) {
	case bool:
		if !c {
			s.violate(label, "assertion failed (concretely false on this path)", nil)
		}
	case *Term:
		if v, ok := s.decided[c]; ok {
			if !v {
				s.violate(label, "assertion failed", nil)
			}
			return nil
		}
		w := s.W
		w.AssertQueries++
		neg := w.Pool.Not(c)
		r, _ := w.Solver.Check(s.pc, []*Term{neg}, nil)
		if r == Unknown {
			s.abort("solver unknown on assertion %s", label)
		}
		if r == Sat {
			s.violate(label, "assertion can fail: "+c.str, []*Term{neg})
			// continue on the side where it holds, if any
			r2, _ := w.Solver.Check(s.pc, []*Term{c}, nil)
			if r2 != Sat {
				panic(skipReq{msg: "assertion fails on every instance of this path"})
			}
			s.assume(c)
		} else {
			s.decided[c] = true
		}
	}
	return nil
}

func (s *State) violate(label, detail string, extra []*Term) {
	for _, v := range s.Viol {
		if v.Label == label {
			return
		}
	}
	v := Violation{Label: label, Detail: detail}
	s.Viol = append(s.Viol, v)
	if extra != nil {
		// remember the extra constraints so that the fixture is a witness of the failure
		s.violExtra = append(s.violExtra, extra...)
	}
}

func zzFail(s *State, a []Value) Value {
	s.Log = append(s.Log, "assert:"+s.strArg(a[0]))
	s.violate(s.strArg(a[0]), s.strArg(a[1]), nil)
	return nil
}

func zzLog(s *State, a []Value) Value {
	s.Log = append(s.Log, fmt.Sprint(s.toHost(a[0])))
	return nil
}

func zzOut(s *State, a []Value) Value {
	key := s.strArg(a[0])
	s.outVals = append(s.outVals[:len(s.outVals):len(s.outVals)], outVal{key, s.snapshotOut(a[1])})
	return nil
}

// snapshotOut copies the top-level slice of an output value so that later
// writes by the harness do not change what was reported.
func (s *State) snapshotOut(v Value) Value {
	iv, ok := v.(Iface)
	if !ok || iv.T == nil {
		return v
	}
	sl, ok := iv.V.(Slice)
	if !ok || sl.Obj == 0 {
		return v
	}
	elems := s.sliceElems(sl)
	arr := &Array{E: make([]Value, len(elems))}
	for i, e := range elems {
		arr.E[i] = copyVal(e)
	}
	id := s.heap.alloc(arr, s.heap.get(sl.Obj).T, "out")
	return Iface{T: iv.T, V: Slice{Obj: id, Len: len(elems), Cap: len(elems)}}
}

// zzSnap(v) returns v with every slice that is not part of an input document
// copied, recursively (document containers are covered by document-unchanged
// and stay shared; lazy document nodes are returned as they are).
func zzSnap(s *State, a []Value) Value { return s.deepSnap(a[0], 0) }

func (s *State) deepSnap(v Value, depth int) Value {
	iv, ok := v.(Iface)
	if !ok || iv.T == nil || depth > 8 {
		return v
	}
	sl, ok := iv.V.(Slice)
	if !ok || sl.Obj == 0 {
		return v
	}
	o := s.heap.get(sl.Obj)
	if o.Doc != nil || o.Tag == "json" || strings.HasPrefix(o.Tag, "doc:") {
		return v
	}
	elems := s.sliceElems(sl)
	arr := &Array{E: make([]Value, len(elems))}
	for i, e := range elems {
		arr.E[i] = s.deepSnap(copyVal(e), depth+1)
	}
	id := s.heap.alloc(arr, o.T, "snap")
	return Iface{T: iv.T, V: Slice{Obj: id, Len: len(elems), Cap: len(elems)}}
}

func zzOutStr(s *State, a []Value) Value {
	key := s.strArg(a[0])
	s.outVals = append(s.outVals[:len(s.outVals):len(s.outVals)], outVal{key, a[1]})
	return nil
}

type outVal struct {
	key string
	v   Value
}

func zzKindOf(s *State, a []Value) Value {
	var t types.Type
	switch x := a[0].(type) {
	case *SymIface:
		t = s.kindOnly(x.Node)
	case Iface:
		t = x.T
	}
	if t == nil {
		return "null"
	}
	return reflectName(t)
}

func zzTypeName(s *State, a []Value) Value { return zzKindOf(s, a) }

func zzIsNaN(s *State, a []Value) Value {
	switch f := a[0].(type) {
	case float64:
		return math.IsNaN(f)
	case *Term:
		return s.retBool(s.W.Pool.App("fp.isNaN", SortBool, f))
	}
	return false
}

func zzFloatEq(s *State, a []Value) Value {
	return s.eqValues(types.Typ[types.Float64], a[0], a[1])
}

// zzNumValue(v) returns the float64 value of a number-kinded interface
// (float64 or json.Number) — the caller has checked the kind.
func zzNumValue(s *State, a []Value) Value {
	iv := s.resolveIface(a[0])
	if iv.T == nil {
		return float64(0)
	}
	if s.W.identical(iv.T, types.Typ[types.Float64]) {
		return iv.V
	}
	if s.W.P.tNumber != nil && s.W.identical(iv.T, s.W.P.tNumber) {
		switch x := iv.V.(type) {
		case *AbsStr:
			return s.W.numVal(x.Id)
		case string:
			f, _ := strconv.ParseFloat(x, 64)
			return f
		}
	}
	return float64(0)
}

func zzStrEq(s *State, a []Value) Value { return s.strEq(a[0], a[1]) }

func zzRegexMatch(s *State, a []Value) Value {
	return stubRegexpMatchString(s, []Value{a[0], a[1]})
}

func zzMutexFree(s *State, a []Value) Value {
	return len(s.locks) == 0
}

func zzSortedKeys(s *State, a []Value) Value {
	iv := s.resolveIface(a[0])
	m, ok := iv.V.(MapRef)
	if !ok || m.Obj == 0 {
		return Slice{}
	}
	md := s.mapData(m, false)
	var keys []string
	for _, k := range md.Keys {
		keys = append(keys, md.M[k].K.(string))
	}
	sort.Strings(keys)
	arr := &Array{E: make([]Value, len(keys))}
	for i, k := range keys {
		arr.E[i] = k
	}
	id := s.heap.alloc(arr, types.Typ[types.String], "")
	return Slice{Obj: id, Len: len(keys), Cap: len(keys)}
}

// ---- sameness (identity of values, not Go equality) ----

func zzSame(s *State, a []Value) Value { return s.sameValue(a[0], a[1], 0) }

func (s *State) sameValue(x, y Value, depth int) Value {
	if depth > 12 {
		s.abort("sameValue depth bound")
	}
	if sx, ok := x.(*SymIface); ok {
		if sy, ok := y.(*SymIface); ok && sx.Node == sy.Node {
			return true
		}
	}
	// decide kinds first
	var tx, ty types.Type
	if sx, ok := x.(*SymIface); ok {
		tx = s.kindOnly(sx.Node)
	} else if ix, ok := x.(Iface); ok {
		tx = ix.T
	} else {
		s.abort("zzSame on %T", x)
	}
	if sy, ok := y.(*SymIface); ok {
		ty = s.kindOnly(sy.Node)
	} else if iy, ok := y.(Iface); ok {
		ty = iy.T
	} else {
		s.abort("zzSame on %T", y)
	}
	if tx == nil || ty == nil {
		return tx == nil && ty == nil
	}
	if !s.W.identical(tx, ty) {
		return false
	}
	a, b := s.resolveIface(x), s.resolveIface(y)
	return s.sameTyped(a.T, a.V, b.V, depth)
}

func (s *State) sameTyped(t types.Type, x, y Value, depth int) Value {
	p := s.W.Pool
	switch u := t.Underlying().(type) {
	case *types.Basic:
		if u.Info()&types.IsFloat != 0 {
			if !isSym(x) && !isSym(y) {
				return math.Float64bits(x.(float64)) == math.Float64bits(y.(float64)) || (math.IsNaN(x.(float64)) && math.IsNaN(y.(float64)))
			}
			return s.retBool(p.Eq(s.liftFloat(x), s.liftFloat(y)))
		}
		return s.eqValues(t, x, y)
	case *types.Interface:
		return s.sameValue(x, y, depth+1)
	case *types.Map:
		mx, my := x.(MapRef), y.(MapRef)
		if mx.Obj == my.Obj {
			return true
		}
		if mx.Obj == 0 || my.Obj == 0 {
			return false
		}
		dx, dy := s.mapData(mx, false), s.mapData(my, false)
		if len(dx.M) != len(dy.M) {
			return false
		}
		var res Value = true
		for _, k := range sortedKeys(dx) {
			ey, ok := dy.M[k]
			if !ok {
				return false
			}
			res = s.boolAnd(res, s.sameTyped(u.Elem(), dx.M[k].V, ey.V, depth+1))
			if r, ok := res.(bool); ok && !r {
				return false
			}
		}
		return res
	case *types.Slice:
		sx, sy := x.(Slice), y.(Slice)
		if sx.Len != sy.Len || (sx.Obj == 0) != (sy.Obj == 0) {
			return false
		}
		if sx.Obj == sy.Obj && sx.Off == sy.Off && sx.Path == sy.Path {
			return true
		}
		ex, ey := s.sliceElems(sx), s.sliceElems(sy)
		var res Value = true
		for i := range ex {
			res = s.boolAnd(res, s.sameTyped(u.Elem(), ex[i], ey[i], depth+1))
			if r, ok := res.(bool); ok && !r {
				return false
			}
		}
		return res
	case *types.Pointer:
		return x.(Ptr) == y.(Ptr)
	case *types.Struct:
		a, b := x.(*Struct), y.(*Struct)
		var res Value = true
		for i := 0; i < u.NumFields(); i++ {
			res = s.boolAnd(res, s.sameTyped(u.Field(i).Type(), a.F[i], b.F[i], depth+1))
			if r, ok := res.(bool); ok && !r {
				return false
			}
		}
		return res
	case *types.Array:
		a, b := x.(*Array), y.(*Array)
		var res Value = true
		for i := range a.E {
			res = s.boolAnd(res, s.sameTyped(u.Elem(), a.E[i], b.E[i], depth+1))
			if r, ok := res.(bool); ok && !r {
				return false
			}
		}
		return res
	case *types.Signature:
		fx, _ := x.(*FuncV)
		fy, _ := y.(*FuncV)
		if fx == nil || fy == nil {
			return fx == nil && fy == nil
		}
		return fx.Fn == fy.Fn && fx.Host == fy.Host
	case *types.Chan:
		return x == y
	}
	s.abort("sameValue on %s", t)
	return nil
}

// ---- document frame condition ----

func (s *State) sameCell(a, b Value) bool {
	switch x := a.(type) {
	case *SymIface:
		y, ok := b.(*SymIface)
		return ok && x.Node == y.Node
	case Iface:
		y, ok := b.(Iface)
		if !ok {
			return false
		}
		if x.T == nil || y.T == nil {
			return x.T == nil && y.T == nil
		}
		if !s.W.identical(x.T, y.T) {
			return false
		}
		return fmt.Sprintf("%v", x.V) == fmt.Sprintf("%v", y.V) && fmt.Sprintf("%T", x.V) == fmt.Sprintf("%T", y.V)
	case string:
		y, ok := b.(string)
		return ok && x == y
	}
	return false
}

// docDiff returns a description of the first document cell whose current
// content differs from its initial content ("" if none).
func (s *State) docDiff() string {
	for id := 1; id < len(s.heap.objs); id++ {
		o := s.heap.objs[id]
		if o == nil || o.Doc == nil {
			continue
		}
		switch v := o.V.(type) {
		case *Array:
			if len(v.E) != len(o.Init) {
				return fmt.Sprintf("array %s changed length", o.Doc.Name)
			}
			for i := range v.E {
				if !s.sameCell(v.E[i], o.Init[i]) {
					return fmt.Sprintf("%s[%d] was overwritten with %s", o.Doc.Name, i, show(v.E[i]))
				}
			}
		case *MapData:
			if len(v.M)*2 != len(o.Init) {
				return fmt.Sprintf("object %s changed its key set", o.Doc.Name)
			}
			for i := 0; i+1 < len(o.Init); i += 2 {
				k := o.Init[i].(string)
				e, ok := v.M["s:"+k]
				if !ok {
					return fmt.Sprintf("%s lost key %q", o.Doc.Name, k)
				}
				if !s.sameCell(e.V, o.Init[i+1]) {
					return fmt.Sprintf("%s.%s was overwritten with %s", o.Doc.Name, k, show(e.V))
				}
			}
		}
	}
	return ""
}

func zzDocUnchanged(s *State, a []Value) Value {
	d := s.docDiff()
	if d != "" {
		s.Log = append(s.Log, "docdiff:"+d)
		return false
	}
	return true
}

func zzSymString(s *State, a []Value) Value {
	name := s.strArg(a[0])
	n := int(s.concreteInt(a[1], "len"))
	ss := &SymStr{B: make([]Value, n)}
	p := s.W.Pool
	for i := 0; i < n; i++ {
		t := p.Var(fmt.Sprintf("byte!%s[%d]", name, i), BV(8))
		s.assume(p.App("bvult", SortBool, t, p.BVConst(128, 8)))
		ss.B[i] = t
		s.holes[fmt.Sprintf("in:byte:%s[%d]", name, i)] = t
	}
	return ss
}

var _ = strings.Join

// zzJSON decodes a concrete JSON parameter into engine values.
func zzJSON(s *State, a []Value) Value {
	name := s.strArg(a[0])
	dec := json.NewDecoder(strings.NewReader(s.W.Job.Params[name]))
	if s.W.Job.Params["usenumber"] == "1" {
		dec.UseNumber()
	}
	var v interface{}
	if err := dec.Decode(&v); err != nil {
		s.abort("zzJSON: %v", err)
	}
	return s.hostToValue(v)
}

func (s *State) hostToValue(v interface{}) Value {
	p := s.W.P
	switch x := v.(type) {
	case nil:
		return Iface{}
	case bool:
		return Iface{T: types.Typ[types.Bool], V: x}
	case float64:
		return Iface{T: types.Typ[types.Float64], V: x}
	case string:
		return Iface{T: types.Typ[types.String], V: x}
	case json.Number:
		return Iface{T: p.tNumber, V: string(x)}
	case map[string]interface{}:
		md := &MapData{M: map[string]*MapEntry{}}
		keys := make([]string, 0, len(x))
		for k := range x {
			keys = append(keys, k)
		}
		sort.Strings(keys)
		for _, k := range keys {
			md.M["s:"+k] = &MapEntry{K: k, V: s.hostToValue(x[k])}
			md.Keys = append(md.Keys, "s:"+k)
		}
		id := s.heap.alloc(md, p.tMap, "json")
		return Iface{T: p.tMap, V: MapRef{Obj: id}}
	case []interface{}:
		arr := &Array{E: make([]Value, len(x))}
		for i, c := range x {
			arr.E[i] = s.hostToValue(c)
		}
		id := s.heap.alloc(arr, p.tIface, "json")
		return Iface{T: p.tSlice, V: Slice{Obj: id, Len: len(x), Cap: len(x)}}
	}
	s.abort("hostToValue %T", v)
	return nil
}

func zzParamInt(s *State, a []Value) Value {
	name := s.strArg(a[0])
	v, ok := s.W.Job.Params[name]
	if !ok {
		s.abort("missing job parameter %q", name)
	}
	n, err := strconv.Atoi(v)
	if err != nil {
		s.abort("job parameter %q is not an integer", name)
	}
	return int64(n)
}

func init() { intrinsics["zzTwin"] = zzTwin }

// resolveDeep materialises a whole (sub)document.
func (s *State) resolveDeep(v Value, depth int) {
	if depth > 12 {
		return
	}
	iv := s.resolveIface(v)
	if iv.T == nil {
		return
	}
	switch x := iv.V.(type) {
	case MapRef:
		md := s.mapData(x, false)
		for _, k := range sortedKeys(md) {
			s.resolveDeep(md.M[k].V, depth+1)
		}
	case Slice:
		for _, e := range s.sliceElems(x) {
			s.resolveDeep(e, depth+1)
		}
	}
}

// zzTwin: the document with every float64 leaf f replaced by a json.Number
// whose spelling identity is the bit pattern of f (shortest formatting:
// equal spelling <=> equal bits) and whose numeric value is f. Assumes the
// floats are finite and not negative zero.
func zzTwin(s *State, a []Value) Value {
	s.resolveDeep(a[0], 0)
	return s.twinOf(a[0], 0)
}

type twinLeaf struct{ id, bits *Term }

func (s *State) twinOf(v Value, depth int) Value {
	p := s.W.Pool
	iv := s.resolveIface(v)
	if iv.T == nil {
		return iv
	}
	switch x := iv.V.(type) {
	case MapRef:
		md := s.mapData(x, false)
		nd := &MapData{M: map[string]*MapEntry{}}
		for _, k := range md.Keys {
			e := md.M[k]
			nd.M[k] = &MapEntry{K: e.K, V: s.twinOf(e.V, depth+1)}
			nd.Keys = append(nd.Keys, k)
		}
		id := s.heap.alloc(nd, s.W.P.tMap, "twin")
		return Iface{T: iv.T, V: MapRef{Obj: id}}
	case Slice:
		elems := s.sliceElems(x)
		arr := &Array{E: make([]Value, len(elems))}
		for i, e := range elems {
			arr.E[i] = s.twinOf(e, depth+1)
		}
		id := s.heap.alloc(arr, s.W.P.tIface, "twin")
		return Iface{T: iv.T, V: Slice{Obj: id, Len: len(elems), Cap: len(elems)}}
	}
	if s.W.identical(iv.T, types.Typ[types.Float64]) {
		f := s.liftFloat(iv.V)
		bits := fpBits(f)
		if bits == nil {
			s.abort("zzTwin: float leaf without a bit-vector representation")
		}
		s.assume(p.Not(p.App("fp.isNaN", SortBool, f)))
		s.assume(p.Not(p.App("fp.isInfinite", SortBool, f)))
		s.assume(p.Not(p.Eq(bits, p.BVConst(0x8000000000000000, 64))))
		// spelling identity: a fresh Int per leaf; shortest formatting means
		// equal spelling <=> equal bits, stated pairwise over the twin's leaves
		id := p.Var("twin!"+bits.Name, SortInt)
		for _, other := range s.twinLeaves {
			s.assume(p.Eq(p.Eq(id, other.id), p.Eq(bits, other.bits)))
		}
		s.twinLeaves = append(s.twinLeaves[:len(s.twinLeaves):len(s.twinLeaves)], twinLeaf{id: id, bits: bits})
		s.assume(p.Eq(p.UF("numbits", BV(64), id), bits))
		return Iface{T: s.W.P.tNumber, V: &AbsStr{Id: id}}
	}
	return iv
}

func init() { intrinsics["zzHoleBytes"] = zzHoleBytes }

func zzHoleBytes(s *State, a []Value) Value {
	path := s.strArg(a[0])
	positions := s.strArg(a[1])
	name := s.strArg(a[2])
	if positions == "" {
		return path
	}
	ss := toSymStr(path)
	p := s.W.Pool
	for _, ps := range strings.Split(positions, ",") {
		i, err := strconv.Atoi(ps)
		if err != nil || i < 0 || i >= len(ss.B) {
			s.abort("zzHoleBytes: bad position %q", ps)
		}
		t := p.Var(fmt.Sprintf("byte!%s[%d]", name, i), BV(8))
		s.assume(p.App("bvult", SortBool, t, p.BVConst(128, 8)))
		ss.B[i] = t
		s.holes[fmt.Sprintf("in:byte:%s[%d]", name, i)] = t
	}
	return ss
}

func init() { intrinsics["zzFreshOutcome"] = zzFreshOutcome }

// zzFreshOutcome runs the harness function zzParseOutcome(path, config) in a
// clone of the initial (post-init) state: the outcome of the same call made
// first in a fresh process.
func zzFreshOutcome(s *State, a []Value) Value {
	w := s.W
	fn := w.P.Pkg.Func("zzParseOutcome")
	if fn == nil {
		s.abort("zzParseOutcome is not defined by the harness")
	}
	st := w.P.NewState(w)
	// numeral holes are not carried over: in the fresh state the numerals are
	// the concrete texts, so that Parse cannot fork there (its outcome - accepted
	// or which error - does not depend on the value of an in-range numeral)
	st.pushCall(&FuncV{Fn: fn}, []Value{a[0], a[1]}, -1, false)
	nf := st.frames[len(st.frames)-1]
	nf.nested = true
	saved := w.inNested
	w.inNested = 0
	kids := w.RunPath(st)
	w.inNested = saved
	if len(kids) > 0 || !nf.returned {
		s.abort("fresh-state Parse did not run to completion (status %d %s)", st.Status, st.AbortMsg)
	}
	return nf.retVal
}
