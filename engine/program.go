package engine

import (
	"fmt"
	"go/token"
	"go/types"
	"os"
	"sort"
	"sync"

	"golang.org/x/tools/go/packages"
	"golang.org/x/tools/go/ssa"
	"golang.org/x/tools/go/ssa/ssautil"
)

// Program is the loaded SSA program plus engine-wide immutable tables.
type Program struct {
	Prog      *ssa.Program
	Pkg       *ssa.Package
	Fset      *token.FileSet
	RepoDir   string
	fnInfos   sync.Map // *ssa.Function -> *fnInfo
	globalID  map[*ssa.Global]int
	Base      *State // state after package init (shared, never mutated)
	rtTypes   map[string]types.Type
	typeMu    sync.Mutex
	implCache map[[2]types.Type]bool

	tMap, tSlice, tIface, tNumber, tError, tRtype types.Type

	FuncsExecuted sync.Map // function name -> true (functions of package jsonpath interpreted)
}

// Load type-checks and builds SSA for the package in repoDir with harness
// files injected as an overlay (virtual file name -> real path).
func Load(repoDir string, overlay map[string]string, tags string) (*Program, error) {
	ov := map[string][]byte{}
	for virt, real := range overlay {
		b, err := os.ReadFile(real)
		if err != nil {
			return nil, err
		}
		ov[virt] = b
	}
	cfg := &packages.Config{
		Mode:    packages.LoadAllSyntax,
		Dir:     repoDir,
		Overlay: ov,
		Env:     append(os.Environ(), "GOFLAGS=-mod=mod", "GOPROXY=off", "GOSUMDB=off", "GOTOOLCHAIN=local"),
	}
	if tags != "" {
		cfg.BuildFlags = []string{"-tags=" + tags}
	}
	pkgs, err := packages.Load(cfg, ".")
	if err != nil {
		return nil, err
	}
	if len(pkgs) != 1 {
		return nil, fmt.Errorf("expected one package, got %d", len(pkgs))
	}
	if len(pkgs[0].Errors) > 0 {
		return nil, fmt.Errorf("package errors: %v", pkgs[0].Errors)
	}
	prog, spkgs := ssautil.AllPackages(pkgs, ssa.InstantiateGenerics)
	prog.Build()
	p := &Program{Prog: prog, Pkg: spkgs[0], Fset: pkgs[0].Fset, RepoDir: repoDir,
		globalID: map[*ssa.Global]int{}, rtTypes: map[string]types.Type{},
		implCache: map[[2]types.Type]bool{}}
	if p.Pkg == nil {
		return nil, fmt.Errorf("no ssa package")
	}
	p.tIface = types.NewInterfaceType(nil, nil).Complete()
	p.tMap = types.NewMap(types.Typ[types.String], p.tIface)
	p.tSlice = types.NewSlice(p.tIface)
	p.tError = types.Universe.Lookup("error").Type()
	if jp := prog.ImportedPackage("encoding/json"); jp != nil {
		p.tNumber = jp.Pkg.Scope().Lookup("Number").Type()
	}
	if rp := prog.ImportedPackage("reflect"); rp != nil {
		if o := rp.Pkg.Scope().Lookup("rtype"); o != nil {
			p.tRtype = types.NewPointer(o.Type())
		}
	}
	if p.tRtype == nil {
		p.tRtype = types.NewPointer(p.runtimeType("_type"))
	}
	return p, nil
}

func (p *Program) info(fn *ssa.Function) *fnInfo {
	if v, ok := p.fnInfos.Load(fn); ok {
		return v.(*fnInfo)
	}
	fi := buildFnInfo(fn)
	v, _ := p.fnInfos.LoadOrStore(fn, fi)
	return v.(*fnInfo)
}

// runtimeType returns a named type from package runtime (for runtime panics).
func (p *Program) runtimeType(name string) types.Type {
	p.typeMu.Lock()
	defer p.typeMu.Unlock()
	if t, ok := p.rtTypes[name]; ok {
		return t
	}
	var t types.Type
	if rp := p.Prog.ImportedPackage("runtime"); rp != nil {
		if obj := rp.Pkg.Scope().Lookup(name); obj != nil {
			t = obj.Type()
		}
	}
	if t == nil {
		// fallback: the universe error type's underlying cannot be used; fabricate a named type
		pkg := types.NewPackage("runtime", "runtime")
		tn := types.NewTypeName(token.NoPos, pkg, name, nil)
		t = types.NewNamed(tn, types.NewStruct(nil, nil), nil)
	}
	p.rtTypes[name] = t
	return t
}

// implements reports whether dynamic type t satisfies interface type it (cached).
func (p *Program) implements(t types.Type, it *types.Interface, key types.Type) bool {
	p.typeMu.Lock()
	defer p.typeMu.Unlock()
	k := [2]types.Type{t, key}
	if v, ok := p.implCache[k]; ok {
		return v
	}
	v := types.Implements(t, it)
	p.implCache[k] = v
	return v
}

// InitBase allocates globals and runs the package initialiser.
func (p *Program) InitBase(w *Worker) error {
	st := &State{heap: newHeap(), decided: map[*Term]bool{}, docRes: map[int]Value{},
		locks: map[int]bool{}, pools: map[int][]Value{}, holes: map[string]Value{}, Out: map[string]string{}, W: w}
	st.Fuel = 50_000_000
	var names []string
	globals := map[string]*ssa.Global{}
	for name, m := range p.Pkg.Members {
		if g, ok := m.(*ssa.Global); ok {
			names = append(names, name)
			globals[name] = g
		}
	}
	sort.Strings(names)
	for _, name := range names {
		g := globals[name]
		elem := g.Type().(*types.Pointer).Elem()
		id := st.heap.alloc(zero(elem), elem, "global:"+name)
		p.globalID[g] = id
	}
	initFn := p.Pkg.Func("init")
	st.pushCall(&FuncV{Fn: initFn}, nil, -1, false)
	w.runToCompletion(st)
	if st.Status != PathDone {
		return fmt.Errorf("package init did not complete: status=%d %s", st.Status, st.AbortMsg)
	}
	st.Status = PathRunning
	st.W = nil
	p.Base = st
	return nil
}

// NewState returns a fresh state derived from the post-init base state.
func (p *Program) NewState(w *Worker) *State {
	st := p.Base.clone()
	st.W = w
	st.Fuel = w.FuelPerPath
	st.steps = 0
	return st
}
