package engine

import (
	"fmt"
	"go/types"
	"math"
	"math/bits"
	"regexp"
	"regexp/syntax"
	"sort"
	"strconv"
	"strings"
)

// gatherer collects the terms whose model values are needed for a fixture.
type gatherer struct {
	seen map[string]bool
	want []*Term
}

func (g *gatherer) add(t *Term) {
	if t == nil || t.IsConst() || g.seen[t.str] {
		return
	}
	g.seen[t.str] = true
	g.want = append(g.want, &Term{Op: "probe", S: t.S, Name: t.str, str: t.str})
}

// fpBits returns the BV64 term holding the bits of an FP term built by
// floatVar / numVal, or nil.
func fpBits(t *Term) *Term {
	if t.Op == "(_ to_fp 11 53)" && len(t.Args) == 1 && t.Args[0].S.K == SBV {
		return t.Args[0]
	}
	return nil
}

func (g *gatherer) addValue(s *State, v Value, depth int) {
	if depth > 14 {
		return
	}
	switch x := v.(type) {
	case *Term:
		if x.S.K == SFP {
			if b := fpBits(x); b != nil {
				g.add(b)
			}
			return
		}
		g.add(x)
	case *AbsStr:
		g.add(x.Id)
	case *SymStr:
		for _, b := range x.B {
			if t, ok := b.(*Term); ok {
				g.add(t)
			}
		}
	case Iface:
		if x.T == nil {
			return
		}
		if s.W.P.tNumber != nil && s.W.identical(x.T, s.W.P.tNumber) {
			if as, ok := x.V.(*AbsStr); ok {
				g.add(as.Id)
				g.add(fpBits(s.W.numVal(as.Id)))
				return
			}
		}
		g.addValue(s, x.V, depth+1)
	case *SymIface:
		g.addNode(s, x.Node, depth+1)
	case MapRef:
		if x.Obj != 0 {
			o := s.heap.get(x.Obj)
			if o.Doc != nil {
				for i := 1; i < len(o.Init); i += 2 {
					g.addValue(s, o.Init[i], depth+1)
				}
			}
			for _, e := range s.mapData(x, false).M {
				g.addValue(s, e.V, depth+1)
			}
		}
	case Slice:
		if x.Obj != 0 {
			o := s.heap.get(x.Obj)
			if o.Doc != nil {
				for _, e := range o.Init {
					g.addValue(s, e, depth+1)
				}
			}
			for _, e := range s.sliceElems(x) {
				g.addValue(s, e, depth+1)
			}
		}
	case *Struct:
		for _, f := range x.F {
			g.addValue(s, f, depth+1)
		}
	case Tuple:
		for _, f := range x {
			g.addValue(s, f, depth+1)
		}
	}
}

func (g *gatherer) addNode(s *State, n *DocNode, depth int) {
	if r, ok := s.docRes[n.ID].(Iface); ok {
		g.addValue(s, r, depth)
	}
}

type modelEnv struct {
	s      *State
	m      map[string]ModelVal
	numSp  map[int64]string // number id -> spelling
	usedSp map[string]int64 // spelling -> id
	synth  map[int64]string
}

func (e *modelEnv) bv(t *Term) uint64 {
	if t.IsConst() {
		return t.UVal
	}
	return e.m[t.str].U
}

func (e *modelEnv) boolOf(v Value) bool {
	switch x := v.(type) {
	case bool:
		return x
	case *Term:
		if x.IsConst() {
			return x.BVal
		}
		return e.m[x.str].B
	}
	return false
}

func (e *modelEnv) floatOf(v Value) (float64, bool) {
	switch x := v.(type) {
	case float64:
		return x, true
	case *Term:
		if x.IsConst() {
			return math.Float64frombits(x.UVal), true
		}
		if b := fpBits(x); b != nil {
			return math.Float64frombits(e.bv(b)), true
		}
	}
	return 0, false
}

func (e *modelEnv) strOf(v Value) string {
	switch x := v.(type) {
	case string:
		return x
	case *AbsStr:
		id := int64(e.bv(x.Id))
		if str, ok := e.s.W.Job.strByID[id]; ok {
			return str
		}
		return e.synthStr(id)
	case *SymStr:
		b := make([]byte, len(x.B))
		for i, c := range x.B {
			switch y := c.(type) {
			case uint64:
				b[i] = byte(y)
			case *Term:
				b[i] = byte(e.bv(y))
			}
		}
		return string(b)
	}
	return fmt.Sprintf("<%T>", v)
}

// synthStr invents a string for an identity that is not an interned literal,
// consistent with the regex predicates the model assigned to that identity.
func (e *modelEnv) synthStr(id int64) string {
	if s, ok := e.synth[id]; ok {
		return s
	}
	type req struct {
		re   *regexp.Regexp
		want bool
	}
	var reqs []req
	for _, a := range e.s.reApps {
		if int64(e.bv(a.id)) == id {
			reqs = append(reqs, req{a.re, e.m[a.t.str].B})
		}
	}
	tag := "§" + strconv.FormatInt(id, 10)
	cands := []string{tag, "x" + tag, tag + "x", "X" + tag, "0" + tag, " " + tag}
	for _, r := range reqs {
		cands = append(cands, r.re.String()+tag, tag+r.re.String())
		if sm, ok := regexSample(r.re.String()); ok {
			cands = append(cands, sm+tag, tag+sm, sm)
		}
	}
	out := tag
	for _, c := range cands {
		ok := true
		for _, r := range reqs {
			if r.re.MatchString(c) != r.want {
				ok = false
				break
			}
		}
		if ok {
			out = c
			break
		}
	}
	if e.synth == nil {
		e.synth = map[int64]string{}
	}
	e.synth[id] = out
	return out
}

func (e *modelEnv) numberOf(as *AbsStr) string {
	id := int64(e.bv(as.Id))
	if sp, ok := e.numSp[id]; ok {
		return sp
	}
	f := math.Float64frombits(e.bv(fpBits(e.s.W.numVal(as.Id))))
	sp := strconv.FormatFloat(f, 'g', -1, 64)
	for k := 0; ; k++ {
		if math.IsInf(f, 0) {
			// a JSON number literal beyond the float64 range (accepted by a UseNumber decoder)
			sp = fmt.Sprintf("1e%d", 400+k)
			if f < 0 {
				sp = "-" + sp
			}
			if _, used := e.usedSp[sp]; !used {
				break
			}
			continue
		}
		if _, used := e.usedSp[sp]; !used {
			break
		}
		sp = strconv.FormatFloat(f, 'e', 20+k, 64)
	}
	e.numSp[id] = sp
	e.usedSp[sp] = id
	return sp
}

// tree encodes a value as the kind-tagged JSON tree of the replay fixture.
func (e *modelEnv) tree(v Value, initial bool, depth int) interface{} {
	s := e.s
	if depth > 14 {
		return map[string]interface{}{"k": "nil"}
	}
	switch x := v.(type) {
	case *SymIface:
		return e.nodeTree(x.Node, initial, depth)
	case Iface:
		if x.T == nil {
			return map[string]interface{}{"k": "nil"}
		}
		w := s.W
		switch {
		case w.identical(x.T, types.Typ[types.Bool]):
			return map[string]interface{}{"k": "bool", "b": e.boolOf(x.V)}
		case w.identical(x.T, types.Typ[types.Float64]):
			f, _ := e.floatOf(x.V)
			return map[string]interface{}{"k": "float", "bits": fmt.Sprintf("%016x", math.Float64bits(f))}
		case w.identical(x.T, types.Typ[types.String]):
			return map[string]interface{}{"k": "string", "s": e.strOf(x.V)}
		case w.P.tNumber != nil && w.identical(x.T, w.P.tNumber):
			if as, ok := x.V.(*AbsStr); ok {
				return map[string]interface{}{"k": "number", "s": e.numberOf(as)}
			}
			return map[string]interface{}{"k": "number", "s": e.strOf(x.V)}
		case w.identical(x.T, w.P.tMap):
			m := x.V.(MapRef)
			out := map[string]interface{}{}
			if m.Obj == 0 {
				for i, o := range w.Job.opaque {
					if w.identical(o.T, w.P.tMap) {
						return e.opaqueTree(i)
					}
				}
			}
			if m.Obj != 0 {
				o := s.heap.get(m.Obj)
				if initial && o.Doc != nil {
					for i := 0; i+1 < len(o.Init); i += 2 {
						out[o.Init[i].(string)] = e.tree(o.Init[i+1], initial, depth+1)
					}
				} else {
					for _, en := range s.mapData(m, false).M {
						out[e.strOf(en.K)] = e.tree(en.V, initial, depth+1)
					}
				}
			}
			return map[string]interface{}{"k": "map", "m": out}
		case w.identical(x.T, w.P.tSlice):
			sl := x.V.(Slice)
			out := []interface{}{}
			if sl.Obj == 0 {
				for i, o := range w.Job.opaque {
					if w.identical(o.T, w.P.tSlice) {
						return e.opaqueTree(i)
					}
				}
			}
			if sl.Obj != 0 {
				o := s.heap.get(sl.Obj)
				if initial && o.Doc != nil {
					for _, c := range o.Init {
						out = append(out, e.tree(c, initial, depth+1))
					}
				} else {
					for _, c := range s.sliceElems(sl) {
						out = append(out, e.tree(c, initial, depth+1))
					}
				}
			}
			return map[string]interface{}{"k": "array", "e": out}
		}
		for i, o := range w.Job.opaque {
			if w.identical(x.T, o.T) {
				if pa, ok := x.V.(Ptr); ok {
					if pb, ok := o.V.(Ptr); ok && pa != pb {
						continue // typed nil pointer vs. non-nil pointer prototype
					}
				}
				return e.opaqueTree(i)
			}
		}
		switch reflectName(x.T) {
		case "jsonpath.zzWrapped":
			st := x.V.(*Struct)
			return map[string]interface{}{"k": "raw", "r": "W:" + e.strOf(st.F[0]) + "(" + renderTree(e.tree(st.F[1], initial, depth+1)) + ")"}
		case "jsonpath.zzWrappedAgg":
			st := x.V.(*Struct)
			return map[string]interface{}{"k": "raw", "r": "A:" + e.strOf(st.F[0]) + "(" + renderTree(e.tree(Iface{T: w.P.tSlice, V: st.F[1]}, initial, depth+1)) + ")"}
		case "jsonpath.Accessor":
			st := x.V.(*Struct)
			if get, ok := st.F[0].(*FuncV); ok && get != nil {
				v := s.callNested(get, nil)
				return map[string]interface{}{"k": "raw", "r": "Acc(" + renderTree(e.tree(v, initial, depth+1)) + ")"}
			}
		}
		if b, ok := x.T.Underlying().(*types.Basic); ok && b.Info()&types.IsInteger != 0 && w.identical(x.T, types.Typ[types.Int]) {
			switch iv := x.V.(type) {
			case int64:
				return map[string]interface{}{"k": "int", "v": iv}
			case *Term:
				return map[string]interface{}{"k": "int", "v": signExt(e.bv(iv), 64)}
			}
		}
		return map[string]interface{}{"k": "other", "t": reflectName(x.T)}
	}
	return map[string]interface{}{"k": "other", "t": fmt.Sprintf("%T", v)}
}

func (e *modelEnv) nodeTree(n *DocNode, initial bool, depth int) interface{} {
	s := e.s
	switch r := s.docRes[n.ID].(type) {
	case Iface:
		return e.tree(r, initial, depth)
	case narrowed:
		return e.defaultTree(n, r.mask)
	}
	return e.defaultTree(n, n.Mask)
}

// defaultTree picks an arbitrary member of an unresolved node's candidates:
// the path never inspected it, so every choice behaves the same.
func (e *modelEnv) defaultTree(n *DocNode, mask uint32) interface{} {
	// prefer kinds that can carry a value unique to the node, so that moving
	// or overwriting an uninspected leaf is observable in the concrete run
	b := mask & -mask
	for _, pref := range []uint32{KFloat, KString, KNumber, KBool, KNil} {
		if mask&pref != 0 {
			b = pref
			break
		}
	}
	switch b {
	case KNil, 0:
		return map[string]interface{}{"k": "nil"}
	case KBool:
		return map[string]interface{}{"k": "bool", "b": false}
	case KFloat:
		return map[string]interface{}{"k": "float", "bits": fmt.Sprintf("%016x", math.Float64bits(float64(100+n.ID)))}
	case KString:
		return map[string]interface{}{"k": "string", "s": "§u" + strconv.Itoa(n.ID)}
	case KNumber:
		return map[string]interface{}{"k": "number", "s": strconv.Itoa(1000 + n.ID)}
	case KMap:
		return map[string]interface{}{"k": "map", "m": map[string]interface{}{}}
	case KArray:
		out := []interface{}{}
		for i := 0; i < n.Cfg.MinLen; i++ {
			out = append(out, map[string]interface{}{"k": "nil"})
		}
		return map[string]interface{}{"k": "array", "e": out}
	}
	return e.opaqueTree(bits.TrailingZeros32(b / KOpaque0))
}

// opaqueTree encodes opaque prototype i; nil JSON containers print like empty ones.
func (e *modelEnv) opaqueTree(i int) interface{} {
	m := map[string]interface{}{"k": "opaque", "i": i}
	if i < len(e.s.W.Job.opaque) {
		o := e.s.W.Job.opaque[i]
		switch {
		case e.s.W.identical(o.T, e.s.W.P.tMap):
			m["r"] = "{}"
		case e.s.W.identical(o.T, e.s.W.P.tSlice):
			m["r"] = "[]"
		}
	}
	return m
}

// renderTree prints a kind-tagged tree in the canonical output format shared
// with the native shim (zzRender).
func renderTree(t interface{}) string {
	m, ok := t.(map[string]interface{})
	if !ok {
		return "?"
	}
	switch m["k"] {
	case "nil":
		return "null"
	case "bool":
		return fmt.Sprint(m["b"])
	case "float":
		return "f:" + m["bits"].(string)
	case "string":
		return "s:" + strconv.Quote(m["s"].(string))
	case "number":
		return "n:" + strconv.Quote(m["s"].(string))
	case "map":
		mm := m["m"].(map[string]interface{})
		keys := make([]string, 0, len(mm))
		for k := range mm {
			keys = append(keys, k)
		}
		sort.Strings(keys)
		parts := make([]string, len(keys))
		for i, k := range keys {
			parts[i] = strconv.Quote(k) + ":" + renderTree(mm[k])
		}
		return "{" + strings.Join(parts, ",") + "}"
	case "array":
		es := m["e"].([]interface{})
		parts := make([]string, len(es))
		for i, c := range es {
			parts[i] = renderTree(c)
		}
		return "[" + strings.Join(parts, ",") + "]"
	case "int":
		return fmt.Sprint(m["v"])
	case "raw":
		return m["r"].(string)
	case "opaque":
		if r, ok := m["r"].(string); ok {
			return r
		}
		return fmt.Sprintf("o:%v", m["i"])
	case "other":
		return "T:" + m["t"].(string)
	}
	return "?"
}

// render prints an arbitrary engine value (harness outputs).
func (e *modelEnv) render(v Value) string {
	s := e.s
	switch x := v.(type) {
	case nil:
		return "null"
	case bool, *Term:
		if t, ok := x.(*Term); ok {
			switch t.S.K {
			case SBool:
				return fmt.Sprint(e.boolOf(t))
			case SFP:
				f, _ := e.floatOf(t)
				return fmt.Sprintf("f:%016x", math.Float64bits(f))
			case SBV:
				return fmt.Sprint(signExt(e.bv(t), t.S.W))
			}
		}
		return fmt.Sprint(x)
	case int64, uint64:
		return fmt.Sprint(x)
	case float64:
		return fmt.Sprintf("f:%016x", math.Float64bits(x))
	case string, *AbsStr, *SymStr:
		return "s:" + strconv.Quote(e.strOf(x))
	case Slice:
		elems := s.sliceElems(x)
		parts := make([]string, len(elems))
		for i, c := range elems {
			parts[i] = e.render(c)
		}
		return "[" + strings.Join(parts, ",") + "]"
	case *SymIface:
		return renderTree(e.tree(x, false, 0))
	case Iface:
		if x.T == nil {
			return "null"
		}
		if s.W.implements(x.T, s.W.P.tError) {
			msg := ""
			if hv, ok := x.V.(HostV); ok {
				if he, ok := hv.V.(error); ok {
					msg = he.Error()
				}
			} else {
				msg = engineErr{s: s, v: x}.Error()
			}
			return "E:" + reflectName(x.T) + ":" + msg
		}
		return renderTree(e.tree(x, false, 0))
	}
	return fmt.Sprintf("<%T>", v)
}

// buildFixture asks the solver for a model of the path condition (plus the
// negated assertion of a recorded violation) and instantiates all inputs.
func (w *Worker) buildFixture(st *State) *Fixture {
	g := &gatherer{seen: map[string]bool{}}
	names := make([]string, 0, len(st.holes))
	for k := range st.holes {
		if strings.HasPrefix(k, "in:") {
			names = append(names, k)
		}
	}
	sort.Strings(names)
	for _, k := range names {
		g.addValue(st, st.holes[k], 0)
	}
	for _, n := range w.Job.nodeList {
		g.addNode(st, n, 0)
	}
	for _, ov := range st.outVals {
		g.addValue(st, ov.v, 0)
	}
	for _, a := range st.reApps {
		g.add(a.id)
		g.add(a.t)
	}
	var model map[string]ModelVal
	if len(st.pc) > 0 || len(st.violExtra) > 0 || len(g.want) > 0 {
		res, m := w.Solver.Check(st.pc, st.violExtra, g.want)
		if res != Sat {
			return nil
		}
		model = m
	}
	if model == nil {
		model = map[string]ModelVal{}
	}
	env := &modelEnv{s: st, m: model, numSp: map[int64]string{}, usedSp: map[string]int64{}}
	fx := &Fixture{Harness: w.Job.Harness, JobID: w.Job.ID, Params: w.Job.Params,
		Ints: map[string]int64{}, Floats: map[string]string{}, Bools: map[string]bool{}, Bytes: map[string]int{},
		Holes: map[string]string{}, Docs: map[string]interface{}{}, Choices: map[string]int{}, Out: map[string]string{}}
	for _, k := range names {
		v := st.holes[k]
		parts := strings.SplitN(k, ":", 3)
		kind, name := parts[1], parts[2]
		switch kind {
		case "int":
			fx.Ints[name] = int64(env.bv(v.(*Term)))
		case "range":
			fx.Ints[name] = v.(int64)
		case "float":
			f, _ := env.floatOf(v)
			fx.Floats[name] = fmt.Sprintf("%016x", math.Float64bits(f))
		case "bool":
			fx.Bools[name] = env.boolOf(v)
		case "byte":
			fx.Bytes[name] = int(env.bv(v.(*Term)))
		case "doc":
			fx.Docs[name] = env.tree(v, true, 0)
		case "holelit":
			fx.Holes[name] = v.(string)
		}
	}
	for _, k := range names {
		parts := strings.SplitN(k, ":", 3)
		kind, name := parts[1], parts[2]
		switch kind {
		case "holeint":
			fx.Holes[st.holes[k].(string)] = strconv.FormatInt(fx.Ints[name], 10)
		case "holefloat":
			u, _ := strconv.ParseUint(fx.Floats[name], 16, 64)
			fx.Holes[st.holes[k].(string)] = strconv.FormatFloat(math.Float64frombits(u), 'g', -1, 64)
		}
	}
	for _, c := range st.choices {
		fx.Choices[c.Label] = c.Alt
	}
	holeTexts := make([]string, 0, len(fx.Holes))
	for k := range fx.Holes {
		holeTexts = append(holeTexts, k)
	}
	sort.Strings(holeTexts)
	unrenderable := false
	for _, ov := range st.outVals {
		r, ok := env.renderGuarded(ov.v)
		if !ok {
			// e.g. an Accessor whose Get would have to fork on a symbolic index: the output
			// is not predicted for this witness (its assertions still must hold natively)
			unrenderable = true
			continue
		}
		for _, k := range holeTexts {
			r = strings.ReplaceAll(r, k, fx.Holes[k])
		}
		fx.Out[ov.key] = r
	}
	for _, v := range st.Viol {
		fx.Viol = append(fx.Viol, v.Label)
	}
	fx.Panics = st.Status == PathPanicked
	fx.Approx = st.Approx || unrenderable
	return fx
}

// renderGuarded renders an output value; a nested call made while rendering
// (Accessor.Get) that needs a fork or hits an engine limit makes the value
// unrenderable instead of ending the process.
func (e *modelEnv) renderGuarded(v Value) (r string, ok bool) {
	depth := e.s.W.inNested
	defer func() {
		if x := recover(); x != nil {
			switch x.(type) {
			case abortReq, forkReq, skipReq, goPanicReq:
				e.s.W.inNested = depth
				r, ok = "", false
			default:
				panic(x)
			}
		}
	}()
	return e.render(v), true
}

// regexSample returns one string matched by the pattern (built from its syntax
// tree: literals as they are, the first alternative, one repetition of `+`,
// none of `*` and `?`, the first member of a class).
func regexSample(pat string) (string, bool) {
	re, err := syntax.Parse(pat, syntax.Perl)
	if err != nil {
		return "", false
	}
	var sb strings.Builder
	var walk func(r *syntax.Regexp) bool
	walk = func(r *syntax.Regexp) bool {
		switch r.Op {
		case syntax.OpLiteral:
			for _, c := range r.Rune {
				sb.WriteRune(c)
			}
		case syntax.OpConcat:
			for _, s := range r.Sub {
				if !walk(s) {
					return false
				}
			}
		case syntax.OpCapture, syntax.OpPlus:
			return walk(r.Sub[0])
		case syntax.OpRepeat:
			for i := 0; i < r.Min; i++ {
				if !walk(r.Sub[0]) {
					return false
				}
			}
		case syntax.OpAlternate:
			return walk(r.Sub[0])
		case syntax.OpStar, syntax.OpQuest, syntax.OpEmptyMatch, syntax.OpBeginLine, syntax.OpEndLine, syntax.OpBeginText, syntax.OpEndText:
		case syntax.OpAnyChar, syntax.OpAnyCharNotNL:
			sb.WriteByte('x')
		case syntax.OpCharClass:
			if len(r.Rune) == 0 {
				return false
			}
			sb.WriteRune(r.Rune[0])
		default:
			return false
		}
		return true
	}
	if !walk(re) {
		return "", false
	}
	return sb.String(), true
}
