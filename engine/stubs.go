package engine

import (
	"encoding/json"
	"errors"
	"fmt"
	"go/types"
	"reflect"
	"regexp"
	"sort"
	"strconv"
	"strings"
)

type stubFn func(s *State, args []Value) Value

var stubs = map[string]stubFn{}

func init() {
	for k, v := range map[string]stubFn{
		"(*sync.Mutex).Lock":                    stubMutexLock,
		"(*sync.Mutex).Unlock":                  stubMutexUnlock,
		"(*sync.Pool).Get":                      stubPoolGet,
		"(*sync.Pool).Put":                      stubPoolPut,
		"regexp.MustCompile":                    stubRegexpMustCompile,
		"regexp.Compile":                        stubRegexpCompile,
		"(*regexp.Regexp).MatchString":          stubRegexpMatchString,
		"(*regexp.Regexp).ReplaceAllStringFunc": stubRegexpReplaceAllStringFunc,
		"(*regexp.Regexp).FindStringSubmatch":   stubRegexpFindStringSubmatch,
		"strconv.Atoi":                          stubAtoi,
		"strconv.ParseFloat":                    stubParseFloat,
		"strconv.Quote":                         stubQuote,
		"strconv.Itoa":                          stubItoa,
		"encoding/json.Unmarshal":               stubJSONUnmarshal,
		"(encoding/json.Number).Float64":        stubNumberFloat64,
		"(encoding/json.Number).String":         func(s *State, a []Value) Value { return a[0] },
		"reflect.TypeOf":                        stubTypeOf,
		"reflect.DeepEqual":                     stubDeepEqual,
		"fmt.Sprintf":                           stubSprintf,
		"fmt.Sprint":                            stubSprint,
		"fmt.Errorf":                            stubErrorf,
		"errors.New":                            stubErrorsNew,
		"(sort.StringSlice).Sort":               stubStringSliceSort,
		"sort.Strings":                          stubStringSliceSort,
		"strings.HasPrefix":                     stubHasPrefix,
		"strings.Contains":                      stubContains,
	} {
		stubs[k] = v
	}
}

// ---- host conversion ----

func (s *State) hostError(err error) Value {
	if err == nil {
		return Iface{}
	}
	return Iface{T: s.hostType(err), V: HostV{V: err}}
}

// hostType finds the go/types type corresponding to a host value's dynamic type.
func (s *State) hostType(v interface{}) types.Type {
	rt := reflect.TypeOf(v)
	ptr := false
	if rt.Kind() == reflect.Ptr {
		ptr = true
		rt = rt.Elem()
	}
	if rt.PkgPath() != "" && rt.Name() != "" {
		if pkg := s.W.P.Prog.ImportedPackage(rt.PkgPath()); pkg != nil {
			if obj := pkg.Pkg.Scope().Lookup(rt.Name()); obj != nil {
				if ptr {
					return types.NewPointer(obj.Type())
				}
				return obj.Type()
			}
		}
	}
	// fallback: an error type from package errors
	if pkg := s.W.P.Prog.ImportedPackage("errors"); pkg != nil {
		if obj := pkg.Pkg.Scope().Lookup("errorString"); obj != nil {
			return types.NewPointer(obj.Type())
		}
	}
	return types.NewPointer(s.W.P.runtimeType("errorString"))
}

// toHost converts an engine value into a host value for formatting.
func (s *State) toHost(v Value) interface{} {
	switch x := v.(type) {
	case nil:
		return nil
	case bool, int64, uint64, float64, string:
		return x
	case *Term:
		if x.IsConst() {
			switch x.S.K {
			case SBool:
				return x.BVal
			case SBV:
				return signExt(x.UVal, x.S.W)
			}
		}
		return "<sym:" + x.str + ">"
	case *SymStr:
		if str, ok := s.concreteStr(x); ok {
			return str
		}
		b := make([]byte, len(x.B))
		for i, e := range x.B {
			if c, ok := e.(uint64); ok {
				b[i] = byte(c)
			} else {
				b[i] = '?'
			}
		}
		return string(b)
	case *AbsStr:
		return "<str:" + x.Id.str + ">"
	case HostV:
		return x.V
	case Iface:
		if x.T == nil {
			return nil
		}
		if hv, ok := x.V.(HostV); ok {
			return hv.V
		}
		// engine-side error values: format through their Error method
		if s.W.implements(x.T, s.W.P.tError) {
			return engineErr{s: s, v: x}
		}
		return s.toHost(x.V)
	case *SymIface:
		return "<doc:" + x.Node.Name + ">"
	}
	return fmt.Sprintf("<%T>", v)
}

// engineErr lets fmt call the Error method of an interpreted error value.
type engineErr struct {
	s *State
	v Iface
}

func (e engineErr) Error() (out string) {
	defer func() {
		if r := recover(); r != nil {
			// the interpreted Error method panicked (or needed a fork): report that instead of crashing the engine
			if _, ok := r.(goPanicReq); ok {
				out = "<Error() panicked>"
				if n := len(e.s.frames); n > 0 {
					e.s.frames = e.s.frames[:0]
				}
				e.s.panicSet = false
				return
			}
			panic(r)
		}
	}()
	fn := e.s.W.P.Prog.LookupMethod(e.v.T, nil, "Error")
	if fn == nil {
		return "<error>"
	}
	r := e.s.callNested(&FuncV{Fn: fn}, []Value{e.v.V})
	if str, ok := e.s.concreteStr(r); ok {
		return str
	}
	return fmt.Sprint(e.s.toHost(r))
}

func (s *State) invokeHostMethod(hv HostV, name string, args []Value) Value {
	if th, ok := hv.V.(typeHandle); ok {
		switch name {
		case "String":
			return th.String()
		case "Kind":
			return th.Kind()
		case "Name":
			return th.Name()
		case "PkgPath":
			return th.PkgPath()
		case "Comparable":
			return types.Comparable(th.T)
		case "Elem":
			switch u := th.T.Underlying().(type) {
			case *types.Pointer:
				return Iface{T: s.W.P.tRtype, V: HostV{V: typeHandle{T: u.Elem()}}}
			case *types.Slice:
				return Iface{T: s.W.P.tRtype, V: HostV{V: typeHandle{T: u.Elem()}}}
			case *types.Array:
				return Iface{T: s.W.P.tRtype, V: HostV{V: typeHandle{T: u.Elem()}}}
			case *types.Map:
				return Iface{T: s.W.P.tRtype, V: HostV{V: typeHandle{T: u.Elem()}}}
			}
		}
	}
	rv := reflect.ValueOf(hv.V)
	m := rv.MethodByName(name)
	if !m.IsValid() {
		s.abort("host method %s not found on %T", name, hv.V)
	}
	in := make([]reflect.Value, len(args))
	for i, a := range args {
		in[i] = reflect.ValueOf(s.toHost(a))
	}
	out := m.Call(in)
	if len(out) == 0 {
		return nil
	}
	return s.fromHost(out[0].Interface())
}

func (s *State) fromHost(v interface{}) Value {
	switch x := v.(type) {
	case string:
		return x
	case bool:
		return x
	case int:
		return int64(x)
	case int64:
		return x
	case float64:
		return x
	case error:
		return s.hostError(x)
	}
	return HostV{V: v}
}

func (s *State) callHost(fv *FuncV, args []Value) Value {
	if h, ok := hostFuncs[fv.Host]; ok {
		return h(s, fv, args)
	}
	s.abort("unknown host function %s", fv.Host)
	return nil
}

var hostFuncs = map[string]func(s *State, fv *FuncV, args []Value) Value{}

// ---- sync ----

func stubMutexLock(s *State, a []Value) Value {
	p := a[0].(Ptr)
	if s.locks[p.Obj] {
		s.recordViolation("deadlock", "Lock of a mutex that is already held (self-deadlock)")
		s.abort("deadlock: mutex already held")
	}
	s.locks[p.Obj] = true
	return nil
}

func stubMutexUnlock(s *State, a []Value) Value {
	p := a[0].(Ptr)
	if !s.locks[p.Obj] {
		s.recordViolation("unlock-unlocked", "fatal error: sync: unlock of unlocked mutex")
		s.abort("unlock of unlocked mutex")
	}
	delete(s.locks, p.Obj)
	return nil
}

func (s *State) poolNewField(p Ptr) *FuncV {
	o := s.heap.get(p.Obj)
	st := s.navigate(o.V, p.Path).(*Struct)
	// field "New" is the last field of sync.Pool
	fv, _ := st.F[len(st.F)-1].(*FuncV)
	return fv
}

func stubPoolGet(s *State, a []Value) Value {
	v := stubPoolGet1(s, a)
	seen := s.ownedBuffers(v)
	if s.owned == nil {
		s.owned = map[int]bool{}
	}
	for id := range seen {
		s.owned[id] = true
	}
	return v
}

func stubPoolGet1(s *State, a []Value) Value {
	p := a[0].(Ptr)
	free := s.pools[p.Obj]
	mode := "lifo"
	if s.W.Job != nil && s.W.Job.PoolMode != "" {
		mode = s.W.Job.PoolMode
	}
	takeNew := func() Value {
		nf := s.poolNewField(p)
		if nf == nil {
			return Iface{}
		}
		return s.callNested(nf, nil)
	}
	switch mode {
	case "fresh":
		return takeNew()
	case "lifo":
		if len(free) == 0 {
			return takeNew()
		}
		v := free[len(free)-1]
		s.pools[p.Obj] = free[: len(free)-1 : len(free)-1]
		s.unpoison(v)
		return v
	case "fifo":
		if len(free) == 0 {
			return takeNew()
		}
		v := free[0]
		s.pools[p.Obj] = append([]Value(nil), free[1:]...)
		s.unpoison(v)
		return v
	case "any":
		if len(free) == 0 {
			return takeNew()
		}
		site := fmt.Sprintf("pool@%d#%d", p.Obj, s.permCount(p.Obj))
		alt, ok := s.choiceFor(site)
		if !ok {
			s.fork(site, len(free)+1, func(n *State, i int) {})
		}
		s.bumpPerm(p.Obj)
		if alt == len(free) {
			return takeNew()
		}
		v := free[alt]
		nf := append([]Value(nil), free[:alt]...)
		nf = append(nf, free[alt+1:]...)
		s.pools[p.Obj] = nf
		s.unpoison(v)
		return v
	}
	s.abort("unknown pool mode %s", mode)
	return nil
}

func stubPoolPut(s *State, a []Value) Value {
	p := a[0].(Ptr)
	v := a[1]
	if iv, ok := v.(Iface); ok && iv.T == nil {
		return nil
	}
	for _, old := range s.pools[p.Obj] {
		if sameRef(old, v) {
			s.poisonHits = append(s.poisonHits[:len(s.poisonHits):len(s.poisonHits)], "the same object is put into a sync.Pool twice"+s.where())
		}
	}
	s.pools[p.Obj] = append(s.pools[p.Obj][:len(s.pools[p.Obj]):len(s.pools[p.Obj])], v)
	for id := range s.ownedBuffers(v) {
		delete(s.owned, id)
	}
	s.poison(v)
	return nil
}

func sameRef(a, b Value) bool {
	ia, ok1 := a.(Iface)
	ib, ok2 := b.(Iface)
	if !ok1 || !ok2 {
		return false
	}
	pa, ok1 := ia.V.(Ptr)
	pb, ok2 := ib.V.(Ptr)
	return ok1 && ok2 && pa == pb
}

// ---- regexp ----

func stubRegexpMustCompile(s *State, a []Value) Value {
	pat, ok := s.concreteStr(a[0])
	if !ok {
		s.abort("regexp.MustCompile on symbolic pattern")
	}
	re, err := regexp.Compile(pat)
	if err != nil {
		s.goPanic(Iface{T: types.Typ[types.String], V: "regexp: Compile(" + strconv.Quote(pat) + "): " + err.Error()})
	}
	return HostV{V: re}
}

func stubRegexpCompile(s *State, a []Value) Value {
	pat, ok := s.concreteStr(a[0])
	if !ok {
		return s.symRegexpCompile(a[0])
	}
	re, err := regexp.Compile(pat)
	if err != nil {
		return Tuple{HostV{V: (*regexp.Regexp)(nil)}, s.hostError(err)}
	}
	return Tuple{HostV{V: re}, Iface{}}
}

func hostRegexp(s *State, v Value) *regexp.Regexp {
	hv, ok := v.(HostV)
	if !ok {
		s.abort("regexp receiver is %T", v)
	}
	re, _ := hv.V.(*regexp.Regexp)
	if re == nil {
		s.goPanicRuntime("invalid memory address or nil pointer dereference", "errorString")
	}
	return re
}

func stubRegexpMatchString(s *State, a []Value) Value {
	if sr, ok := a[0].(HostV); ok {
		if _, isSym := sr.V.(symRegexp); isSym {
			return s.W.Pool.Var(fmt.Sprintf("rematch!%d", len(s.W.Pool.Vars)), SortBool)
		}
	}
	re := hostRegexp(s, a[0])
	switch x := a[1].(type) {
	case string:
		return re.MatchString(x)
	case *AbsStr:
		// uninterpreted predicate per regex over string identities, with
		// ground axioms for every interned (literal) string
		name := "re:" + re.String()
		t := s.W.Pool.UF(name, SortBool, x.Id)
		if _, seen := s.W.Job.regexUFs[name]; !seen {
			s.W.Job.regexUFs[name] = re
		}
		s.regexAxioms(name, re)
		s.reApps = append(s.reApps[:len(s.reApps):len(s.reApps)], reApp{re: re, id: x.Id, t: t})
		return s.retBool(t)
	case *SymStr:
		if str, ok := s.concreteStr(x); ok {
			return re.MatchString(str)
		}
	}
	s.abort("MatchString on %T", a[1])
	return nil
}

func stubRegexpFindStringSubmatch(s *State, a []Value) Value {
	re := hostRegexp(s, a[0])
	str, ok := s.concreteStr(a[1])
	if !ok {
		return s.symFindSubmatch(re, a[1].(*SymStr))
	}
	m := re.FindStringSubmatch(str)
	if m == nil {
		return Slice{}
	}
	arr := &Array{E: make([]Value, len(m))}
	for i, x := range m {
		arr.E[i] = x
	}
	id := s.heap.alloc(arr, types.Typ[types.String], "")
	return Slice{Obj: id, Len: len(m), Cap: len(m)}
}

func stubRegexpReplaceAllStringFunc(s *State, a []Value) Value {
	re := hostRegexp(s, a[0])
	fv := a[2].(*FuncV)
	if ss, isSym := a[1].(*SymStr); isSym {
		if _, ok := s.concreteStr(ss); !ok {
			return s.symReplaceAll(re, ss, fv)
		}
	}
	str, ok := s.concreteStr(a[1])
	if !ok {
		s.abort("ReplaceAllStringFunc on %T", a[1])
	}
	// find matches on the host, call the interpreted callback for each
	var out strings.Builder
	last := 0
	for _, loc := range re.FindAllStringIndex(str, -1) {
		out.WriteString(str[last:loc[0]])
		r := s.callNested(fv, []Value{str[loc[0]:loc[1]]})
		rs, ok := s.concreteStr(r)
		if !ok {
			s.abort("ReplaceAllStringFunc callback returned %T", r)
		}
		out.WriteString(rs)
		last = loc[1]
	}
	out.WriteString(str[last:])
	return out.String()
}

// ---- strconv ----

func stubAtoi(s *State, a []Value) Value {
	str, ok := s.concreteStr(a[0])
	if !ok {
		return s.symAtoi(a[0].(*SymStr))
	}
	if h, ok := s.holes[str]; ok {
		if e, isErr := h.(holeErr); isErr {
			_, err := strconv.Atoi(e.text)
			return Tuple{int64(0), s.hostError(err)}
		}
		return Tuple{h, Iface{}}
	}
	n, err := strconv.Atoi(str)
	return Tuple{int64(n), s.hostError(err)}
}

type holeErr struct{ text string }

func stubParseFloat(s *State, a []Value) Value {
	str, ok := s.concreteStr(a[0])
	if !ok {
		return s.symParseFloat(a[0].(*SymStr))
	}
	if h, ok := s.holes[str]; ok {
		return Tuple{h, Iface{}}
	}
	bits := int(s.concreteInt(a[1], "bitSize"))
	f, err := strconv.ParseFloat(str, bits)
	return Tuple{f, s.hostError(err)}
}

func stubQuote(s *State, a []Value) Value {
	str, ok := s.concreteStr(a[0])
	if !ok {
		s.abort("strconv.Quote on symbolic string")
	}
	return strconv.Quote(str)
}

func stubItoa(s *State, a []Value) Value {
	return strconv.Itoa(int(s.concreteInt(a[0], "Itoa")))
}

// ---- encoding/json ----

func stubJSONUnmarshal(s *State, a []Value) Value {
	sl := a[0].(Slice)
	elems := s.sliceElems(sl)
	buf := make([]byte, len(elems))
	sym := false
	for i, e := range elems {
		switch c := e.(type) {
		case uint64:
			buf[i] = byte(c)
		case *Term:
			if c.IsConst() {
				buf[i] = byte(c.UVal)
			} else {
				sym = true
			}
		}
	}
	target := s.resolveIface(a[1])
	ptr, ok := target.V.(Ptr)
	if !ok {
		s.abort("json.Unmarshal target %T", target.V)
	}
	if sym {
		return s.symJSONUnmarshalString(elems, ptr)
	}
	pt, _ := target.T.(*types.Pointer)
	if pt == nil || !s.W.identical(pt.Elem(), types.Typ[types.String]) {
		s.abort("json.Unmarshal into %s is not modelled", target.T)
	}
	var out string
	err := json.Unmarshal(buf, &out)
	if err == nil {
		s.store(ptr, out)
	}
	return s.hostError(err)
}

func stubNumberFloat64(s *State, a []Value) Value {
	switch x := a[0].(type) {
	case string:
		f, err := strconv.ParseFloat(x, 64)
		return Tuple{f, s.hostError(err)}
	case *AbsStr:
		nv := s.W.numVal(x.Id)
		if s.NumOverflow && s.decide(s.W.Pool.App("fp.isInfinite", SortBool, nv), "number-range") {
			// a spelling outside the float64 range: ParseFloat returns +-Inf and ErrRange
			_, err := strconv.ParseFloat("1e400", 64)
			return Tuple{nv, s.hostError(err)}
		}
		return Tuple{nv, Iface{}}
	}
	s.abort("Number.Float64 on %T", a[0])
	return nil
}

// numVal is the uninterpreted "numeric value of the number spelled id".
func (w *Worker) numVal(id *Term) *Term {
	return w.Pool.App("(_ to_fp 11 53)", SortFP, w.Pool.UF("numbits", BV(64), id))
}

// ---- reflect ----

type typeHandle struct {
	T types.Type
}

// Kind and Name make the handle usable through reflect.Type's method set.
func (t typeHandle) Kind() uint64 { return uint64(valueHandle{v: Iface{T: t.T}}.kind()) }

func (t typeHandle) Name() string {
	if n, ok := t.T.(*types.Named); ok {
		return n.Obj().Name()
	}
	if b, ok := t.T.(*types.Basic); ok {
		return b.Name()
	}
	return ""
}

func (t typeHandle) PkgPath() string {
	if n, ok := t.T.(*types.Named); ok && n.Obj().Pkg() != nil {
		return n.Obj().Pkg().Path()
	}
	return ""
}

func (t typeHandle) String() string {
	if t.T == nil {
		return "<nil>"
	}
	return reflectName(t.T)
}

func stubTypeOf(s *State, a []Value) Value {
	var t types.Type
	switch x := a[0].(type) {
	case *SymIface:
		t = s.kindOnly(x.Node)
	case Iface:
		t = x.T
	}
	if t == nil {
		return Iface{}
	}
	return Iface{T: s.W.P.tRtype, V: HostV{V: typeHandle{T: t}}}
}

func stubDeepEqual(s *State, a []Value) Value {
	return s.deepEqual(a[0], a[1], 0)
}

// deepEqual models reflect.DeepEqual on interface{} values.
func (s *State) deepEqual(x, y Value, depth int) Value {
	if depth > 12 {
		s.abort("deepEqual depth bound")
	}
	// same unresolved node: equal unless it can hold a NaN (or a func); we
	// resolve kinds only as far as needed.
	if sx, ok := x.(*SymIface); ok {
		if sy, ok := y.(*SymIface); ok && sx.Node == sy.Node {
			if _, resolved := s.candidates(sx.Node); !resolved {
				// containers are identical objects => DeepEqual true even with NaN inside
				// (reflect short-cuts identical maps/slices); a float leaf may be NaN.
				if s.narrowTo(sx.Node, KFloat) {
					a := s.resolveIface(x)
					return s.retBool(s.W.Pool.App("fp.eq", SortBool, s.liftFloat(a.V), s.liftFloat(a.V)))
				}
				return true
			}
		}
	}
	// decide kinds before shapes to avoid needless forks
	var tx, ty types.Type
	if sx, ok := x.(*SymIface); ok {
		tx = s.kindOnly(sx.Node)
	} else {
		tx = x.(Iface).T
	}
	if sy, ok := y.(*SymIface); ok {
		ty = s.kindOnly(sy.Node)
	} else {
		ty = y.(Iface).T
	}
	if tx == nil || ty == nil {
		return tx == nil && ty == nil
	}
	if !s.W.identical(tx, ty) {
		return false
	}
	a, b := s.resolveIface(x), s.resolveIface(y)
	return s.deepEqualTyped(a.T, a.V, b.V, depth)
}

func (s *State) deepEqualTyped(t types.Type, x, y Value, depth int) Value {
	switch u := t.Underlying().(type) {
	case *types.Basic:
		if u.Info()&types.IsFloat != 0 || u.Info()&types.IsString != 0 || u.Info()&types.IsBoolean != 0 || u.Info()&types.IsInteger != 0 {
			return s.eqValues(t, x, y)
		}
		return x == y
	case *types.Interface:
		return s.deepEqual(x, y, depth+1)
	case *types.Map:
		mx, my := x.(MapRef), y.(MapRef)
		if (mx.Obj == 0) != (my.Obj == 0) {
			return false
		}
		if mx.Obj == my.Obj {
			return true
		}
		dx, dy := s.mapData(mx, false), s.mapData(my, false)
		if len(dx.M) != len(dy.M) {
			return false
		}
		var res Value = true
		for _, k := range sortedKeys(dx) {
			ey, ok := dy.M[k]
			if !ok {
				return false
			}
			res = s.boolAnd(res, s.deepEqualTyped(u.Elem(), dx.M[k].V, ey.V, depth+1))
			if r, ok := res.(bool); ok && !r {
				return false
			}
		}
		return res
	case *types.Slice:
		sx, sy := x.(Slice), y.(Slice)
		if (sx.Obj == 0) != (sy.Obj == 0) {
			return false
		}
		if sx.Len != sy.Len {
			return false
		}
		if sx.Obj == sy.Obj && sx.Off == sy.Off && sx.Path == sy.Path {
			return true
		}
		ex, ey := s.sliceElems(sx), s.sliceElems(sy)
		var res Value = true
		for i := range ex {
			res = s.boolAnd(res, s.deepEqualTyped(u.Elem(), ex[i], ey[i], depth+1))
			if r, ok := res.(bool); ok && !r {
				return false
			}
		}
		return res
	case *types.Pointer:
		px, py := x.(Ptr), y.(Ptr)
		if px == py {
			return true
		}
		if px.Obj == 0 || py.Obj == 0 {
			return false
		}
		return s.deepEqualTyped(u.Elem(), s.load(px), s.load(py), depth+1)
	case *types.Struct:
		a, b := x.(*Struct), y.(*Struct)
		var res Value = true
		for i := 0; i < u.NumFields(); i++ {
			res = s.boolAnd(res, s.deepEqualTyped(u.Field(i).Type(), a.F[i], b.F[i], depth+1))
			if r, ok := res.(bool); ok && !r {
				return false
			}
		}
		return res
	case *types.Array:
		a, b := x.(*Array), y.(*Array)
		var res Value = true
		for i := range a.E {
			res = s.boolAnd(res, s.deepEqualTyped(u.Elem(), a.E[i], b.E[i], depth+1))
			if r, ok := res.(bool); ok && !r {
				return false
			}
		}
		return res
	case *types.Signature:
		fx, _ := x.(*FuncV)
		fy, _ := y.(*FuncV)
		return fx == nil && fy == nil
	case *types.Chan:
		return x == y
	}
	s.abort("deepEqual on %s", t)
	return nil
}

// ---- fmt / errors ----

func (s *State) variadicArgs(v Value) []interface{} {
	sl, ok := v.(Slice)
	if !ok {
		return nil
	}
	elems := s.sliceElems(sl)
	out := make([]interface{}, len(elems))
	for i, e := range elems {
		out[i] = s.toHost(e)
	}
	return out
}

func stubSprintf(s *State, a []Value) Value {
	f, ok := s.concreteStr(a[0])
	if !ok {
		s.abort("Sprintf with symbolic format")
	}
	return fmt.Sprintf(f, s.variadicArgs(a[1])...)
}

func stubSprint(s *State, a []Value) Value {
	return fmt.Sprint(s.variadicArgs(a[0])...)
}

func stubErrorf(s *State, a []Value) Value {
	f, _ := s.concreteStr(a[0])
	return s.hostError(fmt.Errorf(f, s.variadicArgs(a[1])...))
}

func stubErrorsNew(s *State, a []Value) Value {
	str, ok := s.concreteStr(a[0])
	if !ok {
		str = fmt.Sprint(s.toHost(a[0]))
	}
	return s.hostError(errors.New(str))
}

// ---- sort ----

func stubStringSliceSort(s *State, a []Value) Value {
	sl := a[0].(Slice)
	elems := s.sliceElems(sl)
	strs := make([]string, len(elems))
	for i, e := range elems {
		str, ok := s.concreteStr(e)
		if !ok {
			s.abort("sort of symbolic strings")
		}
		strs[i] = str
	}
	sort.Strings(strs)
	for i, str := range strs {
		s.store(Ptr{Obj: sl.Obj, Path: pathAppend(sl.Path, sl.Off+i)}, str)
	}
	return nil
}

func stubHasPrefix(s *State, a []Value) Value {
	x, ok1 := s.concreteStr(a[0])
	y, ok2 := s.concreteStr(a[1])
	if !ok1 || !ok2 {
		s.abort("strings.HasPrefix on symbolic strings")
	}
	return strings.HasPrefix(x, y)
}

func stubContains(s *State, a []Value) Value {
	x, ok1 := s.concreteStr(a[0])
	y, ok2 := s.concreteStr(a[1])
	if !ok1 || !ok2 {
		s.abort("strings.Contains on symbolic strings")
	}
	return strings.Contains(x, y)
}

type reApp struct {
	re *regexp.Regexp
	id *Term
	t  *Term
}

// regexAxioms assumes re(c) = host result for every interned string c.
func (s *State) regexAxioms(name string, re *regexp.Regexp) {
	p := s.W.Pool
	for str, id := range s.W.Job.strIDs {
		key := fmt.Sprintf("ax:%s:%d", name, id)
		if _, done := s.holes[key]; done {
			continue
		}
		s.holes[key] = true
		app := p.UF(name, SortBool, p.IntConst(id))
		if re.MatchString(str) {
			s.assume(app)
		} else {
			s.assume(p.Not(app))
		}
	}
}

func jsonUnmarshalHost(text string, out *string) error { return json.Unmarshal([]byte(text), out) }
