package engine

import (
	"fmt"
	"go/types"
	"reflect"
	"strconv"
	"strings"
	"unicode"
	"unicode/utf8"
)

// Generic host fallback for pure std functions on concrete arguments, plus a
// few models on strings with symbolic bytes and a model of reflect.Value.

var hostPure = map[string]interface{}{
	"strings.Index": strings.Index, "strings.IndexByte": strings.IndexByte, "strings.IndexRune": strings.IndexRune, "strings.IndexAny": strings.IndexAny,
	"strings.LastIndex": strings.LastIndex, "strings.LastIndexByte": strings.LastIndexByte,
	"strings.ContainsRune": strings.ContainsRune, "strings.ContainsAny": strings.ContainsAny, "strings.HasSuffix": strings.HasSuffix,
	"strings.TrimSpace": strings.TrimSpace, "strings.Trim": strings.Trim, "strings.TrimLeft": strings.TrimLeft, "strings.TrimRight": strings.TrimRight,
	"strings.TrimPrefix": strings.TrimPrefix, "strings.TrimSuffix": strings.TrimSuffix, "strings.ToLower": strings.ToLower, "strings.ToUpper": strings.ToUpper,
	"strings.Repeat": strings.Repeat, "strings.Count": strings.Count, "strings.EqualFold": strings.EqualFold, "strings.Compare": strings.Compare,
	"strings.ReplaceAll": strings.ReplaceAll, "strings.Replace": strings.Replace,
	"strconv.FormatInt": strconv.FormatInt, "strconv.FormatFloat": strconv.FormatFloat, "strconv.FormatBool": strconv.FormatBool, "strconv.Unquote": strconv.Unquote,
	"strconv.ParseInt": strconv.ParseInt, "strconv.ParseUint": strconv.ParseUint, "strconv.ParseBool": strconv.ParseBool,
	"unicode.IsDigit": unicode.IsDigit, "unicode.IsLetter": unicode.IsLetter, "unicode.IsSpace": unicode.IsSpace, "unicode.IsUpper": unicode.IsUpper,
	"unicode.IsLower": unicode.IsLower, "unicode.IsControl": unicode.IsControl, "unicode.IsPrint": unicode.IsPrint, "unicode.ToLower": unicode.ToLower, "unicode.ToUpper": unicode.ToUpper,
	"unicode/utf8.RuneCountInString": utf8.RuneCountInString, "unicode/utf8.ValidString": utf8.ValidString, "unicode/utf8.RuneLen": utf8.RuneLen,
	"unicode/utf8.DecodeRuneInString": utf8.DecodeRuneInString, "unicode/utf8.DecodeLastRuneInString": utf8.DecodeLastRuneInString,
}

func init() {
	for name, fn := range hostPure {
		name, fn := name, fn
		if _, exists := stubs[name]; exists {
			continue
		}
		stubs[name] = func(s *State, a []Value) Value { return s.callHostPure(name, fn, a) }
	}
	stubs["strings.IndexByte"] = func(s *State, a []Value) Value {
		if ss, ok := s.symKey(a[0]); ok {
			c, okc := a[1].(uint64)
			if !okc {
				s.abort("strings.IndexByte with a symbolic byte argument")
			}
			for i, b := range ss.B {
				if s.byteIs(b, byte(c)) {
					return int64(i)
				}
			}
			return int64(-1)
		}
		return s.callHostPure("strings.IndexByte", strings.IndexByte, a)
	}
	stubs["strings.ContainsRune"] = func(s *State, a []Value) Value {
		if ss, ok := s.symKey(a[0]); ok {
			r := s.concreteInt(a[1], "rune")
			if r >= 0x80 {
				s.abort("strings.ContainsRune with a non-ASCII rune on symbolic bytes")
			}
			for _, b := range ss.B {
				if s.byteIs(b, byte(r)) {
					return true
				}
			}
			return false
		}
		return s.callHostPure("strings.ContainsRune", strings.ContainsRune, a)
	}
	oldContains := stubs["strings.Contains"]
	stubs["strings.Contains"] = func(s *State, a []Value) Value {
		if ss, ok := s.symKey(a[0]); ok {
			sub, okc := s.concreteStr(a[1])
			if okc && len(sub) == 1 && sub[0] < 0x80 {
				for _, b := range ss.B {
					if s.byteIs(b, sub[0]) {
						return true
					}
				}
				return false
			}
		}
		return oldContains(s, a)
	}
	stubs["reflect.ValueOf"] = stubValueOf
	stubs["(reflect.Value).Kind"] = func(s *State, a []Value) Value { return uint64(s.valueHandle(a[0]).kind()) }
	stubs["(reflect.Value).IsNil"] = func(s *State, a []Value) Value { return s.valueHandle(a[0]).isNil(s) }
	stubs["(reflect.Value).IsValid"] = func(s *State, a []Value) Value { return s.valueHandle(a[0]).v.T != nil }
	stubs["(reflect.Value).IsZero"] = func(s *State, a []Value) Value { return s.valueHandle(a[0]).isNil(s) }
	stubs["(reflect.Value).Type"] = func(s *State, a []Value) Value {
		h := s.valueHandle(a[0])
		return Iface{T: s.W.P.tRtype, V: HostV{V: typeHandle{T: h.v.T}}}
	}
	stubs["(reflect.Value).Len"] = func(s *State, a []Value) Value {
		h := s.valueHandle(a[0])
		switch x := h.v.V.(type) {
		case Slice:
			return int64(x.Len)
		case MapRef:
			if x.Obj == 0 {
				return int64(0)
			}
			return int64(len(s.mapData(x, false).M))
		case string:
			return int64(len(x))
		case *Array:
			return int64(len(x.E))
		}
		s.abort("reflect.Value.Len on %T", h.v.V)
		return nil
	}
	ptrOf := func(s *State, a []Value) Value {
		h := s.valueHandle(a[0])
		switch x := h.v.V.(type) {
		case MapRef:
			return uint64(x.Obj) << 20
		case Slice:
			return uint64(x.Obj)<<20 + uint64(x.Off)*16
		case Ptr:
			return uint64(x.Obj)<<20 + uint64(len(x.Path))
		case *FuncV:
			if x == nil {
				return uint64(0)
			}
			return uint64(0xf0000000)
		}
		s.goPanic(Iface{T: types.NewPointer(s.W.P.runtimeType("TypeAssertionError")), V: HostV{V: runtimeErr{msg: "reflect: call of reflect.Value.Pointer on " + h.kind().String() + " Value"}}})
		return nil
	}
	stubs["(reflect.Value).Pointer"] = ptrOf
	stubs["(reflect.Value).UnsafePointer"] = func(s *State, a []Value) Value {
		v := ptrOf(s, a).(uint64)
		return Ptr{Obj: int(v >> 20)}
	}
	stubs["(reflect.Kind).String"] = func(s *State, a []Value) Value { return reflect.Kind(a[0].(uint64)).String() }
}

type valueHandle struct{ v Iface }

func (s *State) valueHandle(v Value) valueHandle {
	hv, ok := v.(HostV)
	if !ok {
		s.abort("reflect.Value receiver is %T", v)
	}
	h, ok := hv.V.(valueHandle)
	if !ok {
		s.abort("reflect.Value receiver holds %T", hv.V)
	}
	return h
}

func stubValueOf(s *State, a []Value) Value {
	var iv Iface
	switch x := a[0].(type) {
	case *SymIface:
		// the kind decides everything the model supports except Len; resolve fully
		iv = s.resolveIface(x)
	case Iface:
		iv = x
	}
	return HostV{V: valueHandle{v: iv}}
}

func (h valueHandle) kind() reflect.Kind {
	if h.v.T == nil {
		return reflect.Invalid
	}
	switch u := h.v.T.Underlying().(type) {
	case *types.Basic:
		switch u.Kind() {
		case types.Bool:
			return reflect.Bool
		case types.Int:
			return reflect.Int
		case types.Int8:
			return reflect.Int8
		case types.Int16:
			return reflect.Int16
		case types.Int32:
			return reflect.Int32
		case types.Int64:
			return reflect.Int64
		case types.Uint:
			return reflect.Uint
		case types.Uint8:
			return reflect.Uint8
		case types.Uint16:
			return reflect.Uint16
		case types.Uint32:
			return reflect.Uint32
		case types.Uint64:
			return reflect.Uint64
		case types.Uintptr:
			return reflect.Uintptr
		case types.Float32:
			return reflect.Float32
		case types.Float64:
			return reflect.Float64
		case types.Complex64:
			return reflect.Complex64
		case types.Complex128:
			return reflect.Complex128
		case types.String:
			return reflect.String
		case types.UnsafePointer:
			return reflect.UnsafePointer
		}
	case *types.Pointer:
		return reflect.Ptr
	case *types.Slice:
		return reflect.Slice
	case *types.Map:
		return reflect.Map
	case *types.Chan:
		return reflect.Chan
	case *types.Signature:
		return reflect.Func
	case *types.Struct:
		return reflect.Struct
	case *types.Array:
		return reflect.Array
	case *types.Interface:
		return reflect.Interface
	}
	return reflect.Invalid
}

func (h valueHandle) isNil(s *State) bool {
	switch x := h.v.V.(type) {
	case Ptr:
		return x.Obj == 0
	case Slice:
		return x.Obj == 0
	case MapRef:
		return x.Obj == 0
	case *FuncV:
		return x == nil
	case Iface:
		return x.T == nil
	}
	switch h.kind() {
	case reflect.Ptr, reflect.Slice, reflect.Map, reflect.Func, reflect.Chan, reflect.Interface, reflect.UnsafePointer:
		return false
	}
	s.goPanic(Iface{T: types.NewPointer(s.W.P.runtimeType("TypeAssertionError")), V: HostV{V: runtimeErr{msg: "reflect: call of reflect.Value.IsNil on " + h.kind().String() + " Value"}}})
	return false
}

// callHostPure calls a pure std function on concrete scalar/string arguments.
func (s *State) callHostPure(name string, fn interface{}, a []Value) Value {
	fv := reflect.ValueOf(fn)
	ft := fv.Type()
	if ft.NumIn() != len(a) || ft.IsVariadic() {
		s.abort("host call %s: arity", name)
	}
	in := make([]reflect.Value, len(a))
	for i, v := range a {
		pt := ft.In(i)
		switch x := v.(type) {
		case string:
			in[i] = reflect.ValueOf(x).Convert(pt)
		case *SymStr:
			str, ok := s.concreteStr(x)
			if !ok {
				s.abort("host call %s on a string with symbolic bytes is not modelled", name)
			}
			in[i] = reflect.ValueOf(str).Convert(pt)
		case int64:
			in[i] = reflect.ValueOf(x).Convert(pt)
		case uint64:
			in[i] = reflect.ValueOf(x).Convert(pt)
		case bool:
			in[i] = reflect.ValueOf(x)
		case float64:
			in[i] = reflect.ValueOf(x).Convert(pt)
		default:
			s.abort("host call %s: unsupported argument %T", name, v)
		}
	}
	out := fv.Call(in)
	conv := func(r reflect.Value) Value {
		switch r.Kind() {
		case reflect.String:
			return r.String()
		case reflect.Bool:
			return r.Bool()
		case reflect.Int, reflect.Int8, reflect.Int16, reflect.Int32, reflect.Int64:
			return r.Int()
		case reflect.Uint, reflect.Uint8, reflect.Uint16, reflect.Uint32, reflect.Uint64:
			return r.Uint()
		case reflect.Float64, reflect.Float32:
			return r.Float()
		case reflect.Interface:
			if r.IsNil() {
				return Iface{}
			}
			if e, ok := r.Interface().(error); ok {
				return s.hostError(e)
			}
		}
		s.abort("host call %s: unsupported result kind %s", name, r.Kind())
		return nil
	}
	switch len(out) {
	case 0:
		return nil
	case 1:
		return conv(out[0])
	}
	tu := make(Tuple, len(out))
	for i, r := range out {
		tu[i] = conv(r)
	}
	return tu
}

var _ = fmt.Sprint

// ---- sync/atomic: operations are synchronised; the engine runs one call at a
// time, so they reduce to plain loads and stores that are exempt from the
// unsynchronised-write check ----

func (s *State) atomicAccess(f func()) {
	saved := s.AccessLog
	s.AccessLog = nil
	defer func() { s.AccessLog = saved }()
	f()
}

func init() {
	field0 := func(p Ptr) Ptr { return Ptr{Obj: p.Obj, Path: pathAppend(p.Path, 0)} }
	stubs["(*sync/atomic.Value).Load"] = func(s *State, a []Value) Value {
		var v Value
		s.atomicAccess(func() { v = s.load(field0(a[0].(Ptr))) })
		return v
	}
	stubs["(*sync/atomic.Value).Store"] = func(s *State, a []Value) Value {
		if iv, ok := a[1].(Iface); ok && iv.T == nil {
			s.goPanic(Iface{T: types.Typ[types.String], V: "sync/atomic: store of nil value into Value"})
		}
		s.atomicAccess(func() { s.store(field0(a[0].(Ptr)), a[1]) })
		return nil
	}
	for _, w := range []string{"Int32", "Int64", "Uint32", "Uint64"} {
		w := w
		stubs["sync/atomic.Load"+w] = func(s *State, a []Value) Value {
			var v Value
			s.atomicAccess(func() { v = s.load(a[0].(Ptr)) })
			return v
		}
		stubs["sync/atomic.Store"+w] = func(s *State, a []Value) Value {
			s.atomicAccess(func() { s.store(a[0].(Ptr), a[1]) })
			return nil
		}
		stubs["sync/atomic.Add"+w] = func(s *State, a []Value) Value {
			var out Value
			s.atomicAccess(func() {
				cur := s.load(a[0].(Ptr))
				switch c := cur.(type) {
				case int64:
					out = c + a[1].(int64)
				case uint64:
					out = c + a[1].(uint64)
				default:
					s.abort("atomic add on %T", cur)
				}
				s.store(a[0].(Ptr), out)
			})
			return out
		}
		stubs["sync/atomic.CompareAndSwap"+w] = func(s *State, a []Value) Value {
			ok := false
			s.atomicAccess(func() {
				if s.load(a[0].(Ptr)) == a[1] {
					s.store(a[0].(Ptr), a[2])
					ok = true
				}
			})
			return ok
		}
		// methods of the typed atomics (struct with the value in its last field)
		for _, m := range []string{"Load", "Store", "Add"} {
			m := m
			stubs["(*sync/atomic."+w+")."+m] = func(s *State, a []Value) Value {
				p := a[0].(Ptr)
				o := s.heap.get(p.Obj)
				st, _ := s.navigate(o.V, p.Path).(*Struct)
				if st == nil {
					s.abort("atomic.%s receiver", w)
				}
				fp := Ptr{Obj: p.Obj, Path: pathAppend(p.Path, len(st.F)-1)}
				switch m {
				case "Load":
					return stubs["sync/atomic.Load"+w](s, []Value{fp})
				case "Store":
					return stubs["sync/atomic.Store"+w](s, []Value{fp, a[1]})
				}
				return stubs["sync/atomic.Add"+w](s, []Value{fp, a[1]})
			}
		}
	}
	stubs["(*sync.RWMutex).Lock"] = stubMutexLock
	stubs["(*sync.RWMutex).Unlock"] = stubMutexUnlock
	stubs["(*sync.RWMutex).RLock"] = stubMutexLock
	stubs["(*sync.RWMutex).RUnlock"] = stubMutexUnlock
	stubs["(*sync.Once).Do"] = func(s *State, a []Value) Value {
		p := a[0].(Ptr)
		key := fmt.Sprintf("once:%d:%s", p.Obj, p.Path)
		if _, done := s.holes[key]; done {
			return nil
		}
		s.holes[key] = true
		if fv, ok := a[1].(*FuncV); ok && fv != nil {
			s.callNested(fv, nil)
		}
		return nil
	}
}
