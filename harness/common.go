//go:build verif

package jsonpath

// Helpers shared by the property harnesses. Plain Go: interpreted by the
// engine on symbolic inputs and compiled natively for replays.

type zzFunc = func(interface{}) ([]interface{}, error)

// zzSplit splits s at every occurrence of the single byte sep.
func zzSplit(s string, sep byte) []string {
	var out []string
	start := 0
	for i := 0; i < len(s); i++ {
		if s[i] == sep {
			out = append(out, s[start:i])
			start = i + 1
		}
	}
	return append(out, s[start:])
}

// zzDeclHoles declares the numeral holes listed in the "holes" parameter,
// written as "7001=start;7002=end" (integer holes) or "7.5e1=x:f" (float).
func zzDeclHoles() {
	spec := zzParam("holes")
	if spec == "" {
		return
	}
	for _, item := range zzSplit(spec, ';') {
		kv := zzSplit(item, '=')
		if len(kv) != 2 {
			continue
		}
		name := kv[1]
		if len(name) > 2 && name[len(name)-2:] == ":f" {
			zzHoleFloat(kv[0], name[:len(name)-2])
		} else {
			zzHoleInt(kv[0], name)
		}
	}
}

// zzConfig builds the configuration variant named by the "config" parameter:
// "" (none), "funcs", "accessor", "funcs+accessor".
func zzConfig() []Config {
	switch zzParam("config") {
	case "funcs":
		c := Config{}
		zzAddFuncs(&c)
		return []Config{c}
	case "accessor":
		c := Config{}
		c.SetAccessorMode()
		return []Config{c}
	case "funcs+accessor":
		c := Config{}
		zzAddFuncs(&c)
		c.SetAccessorMode()
		return []Config{c}
	}
	return nil
}

// zzCallLog records user-function calls (C12, C14).
var zzCallLog []zzCall

type zzCall struct {
	fn   string
	args []interface{}
	agg  bool
}

type zzWrapped struct {
	fn  string
	arg interface{}
}

type zzWrappedAgg struct {
	fn   string
	args []interface{}
}

// zzBoom is the panic value of the panicking user function.
type zzBoom struct{}

type zzErrUser struct{ fn string }

func (e zzErrUser) Error() string { return "user function " + e.fn + " failed" }

// zzAddFuncs registers the standard recording functions:
// f, g: injective filter functions; fail: always fails; failnum: fails on
// numbers only; agg, agh: injective aggregates; aggfail: failing aggregate;
// aggid: returns its argument list.
func zzAddFuncs(c *Config) {
	mkFilter := func(name string) func(interface{}) (interface{}, error) {
		return func(v interface{}) (interface{}, error) {
			zzCallLog = append(zzCallLog, zzCall{fn: name, args: []interface{}{v}})
			return zzWrapped{fn: name, arg: v}, nil
		}
	}
	mkAgg := func(name string) func([]interface{}) (interface{}, error) {
		return func(v []interface{}) (interface{}, error) {
			cp := make([]interface{}, len(v))
			copy(cp, v)
			zzCallLog = append(zzCallLog, zzCall{fn: name, args: cp, agg: true})
			return zzWrappedAgg{fn: name, args: cp}, nil
		}
	}
	c.SetFilterFunction("f", mkFilter("f"))
	c.SetFilterFunction("g", mkFilter("g"))
	c.SetFilterFunction("fail", func(v interface{}) (interface{}, error) {
		zzCallLog = append(zzCallLog, zzCall{fn: "fail", args: []interface{}{v}})
		return nil, zzErrUser{fn: "fail"}
	})
	c.SetFilterFunction("failnum", func(v interface{}) (interface{}, error) {
		zzCallLog = append(zzCallLog, zzCall{fn: "failnum", args: []interface{}{v}})
		if _, ok := v.(float64); ok {
			return nil, zzErrUser{fn: "failnum"}
		}
		return zzWrapped{fn: "failnum", arg: v}, nil
	})
	c.SetAggregateFunction("agg", mkAgg("agg"))
	c.SetAggregateFunction("agh", mkAgg("agh"))
	// boomnum panics on a number (after other values of the same evaluation went
	// through): the caller may recover and go on using the library
	c.SetFilterFunction("boomnum", func(v interface{}) (interface{}, error) {
		if _, ok := v.(float64); ok {
			panic(zzBoom{})
		}
		return zzWrapped{fn: "boomnum", arg: v}, nil
	})
	// failrt fails with one of the library's own runtime errors (as a function
	// does that calls Retrieve itself and returns that error unchanged)
	c.SetFilterFunction("failrt", func(v interface{}) (interface{}, error) {
		zzCallLog = append(zzCallLog, zzCall{fn: "failrt", args: []interface{}{v}})
		return nil, ErrorMemberNotExist{errorBasicRuntime: &errorBasicRuntime{node: &syntaxBasicNode{text: ".zzforeign"}}}
	})
	// cnt: an aggregate with a plain JSON result (the number of arguments)
	c.SetAggregateFunction("cnt", func(v []interface{}) (interface{}, error) {
		cp := make([]interface{}, len(v))
		copy(cp, v)
		zzCallLog = append(zzCallLog, zzCall{fn: "cnt", args: cp, agg: true})
		return float64(len(v)), nil
	})
	// aggid returns its argument list itself (a "collect" aggregate): whatever
	// memory the library hands to a user function may end up in a result.
	c.SetAggregateFunction("aggid", func(v []interface{}) (interface{}, error) {
		cp := make([]interface{}, len(v))
		copy(cp, v)
		zzCallLog = append(zzCallLog, zzCall{fn: "aggid", args: cp, agg: true})
		return v, nil
	})
	c.SetAggregateFunction("aggfail", func(v []interface{}) (interface{}, error) {
		cp := make([]interface{}, len(v))
		copy(cp, v)
		zzCallLog = append(zzCallLog, zzCall{fn: "aggfail", args: cp, agg: true})
		return nil, zzErrUser{fn: "aggfail"}
	})
}

// zzTry calls a parsed function and converts a panic into a value.
func zzTry(f zzFunc, src interface{}) (res []interface{}, err error, pan interface{}) {
	defer func() {
		if r := recover(); r != nil {
			pan = r
			res, err = nil, nil
		}
	}()
	res, err = f(src)
	return
}

// zzTryParse calls Parse and converts a panic into a value.
func zzTryParse(path string, cfg []Config) (f zzFunc, err error, pan interface{}) {
	defer func() {
		if r := recover(); r != nil {
			pan = r
			f, err = nil, nil
		}
	}()
	f, err = Parse(path, cfg...)
	return
}

// zzErrKind classifies an error value by its documented type.
func zzErrKind(err error) string {
	switch err.(type) {
	case nil:
		return "nil"
	case ErrorMemberNotExist:
		return "MemberNotExist"
	case ErrorTypeUnmatched:
		return "TypeUnmatched"
	case ErrorFunctionFailed:
		return "FunctionFailed"
	case ErrorInvalidSyntax:
		return "InvalidSyntax"
	case ErrorInvalidArgument:
		return "InvalidArgument"
	case ErrorFunctionNotFound:
		return "FunctionNotFound"
	case ErrorNotSupported:
		return "NotSupported"
	}
	return "other"
}

// zzErrorText calls err.Error() and converts a panic into a value: an error
// value whose text cannot be printed is not a usable error.
func zzErrorText(err error) (text string, pan interface{}) {
	defer func() {
		if r := recover(); r != nil {
			pan = r
		}
	}()
	return err.Error(), nil
}

// zzInputDoc: the symbolic document of the job, or - for jobs that carry a
// concrete (large) JSON text - that document decoded.
func zzInputDoc(name string) interface{} {
	if zzParam("json") != "" {
		return zzJSON("json")
	}
	return zzDoc(name)
}
