//go:build verif

package jsonpath

func init() {
	zzHarnesses["zzH_C11_slice"] = zzH_C11_slice
	zzHarnesses["zzH_C11_index"] = zzH_C11_index
}

// zzPySlice is the reference: the indices a Python slice [start:end:step]
// selects from a sequence of length n. It is written so that no intermediate
// value can overflow: bounds are clamped into [-1, n] before any stepping and
// the loop stops before adding a step that would leave the range.
func zzPySlice(start int, hasStart bool, end int, hasEnd bool, step int, hasStep bool, n int) []int {
	if !hasStep {
		step = 1
	}
	if step == 0 {
		return nil
	}
	lower, upper := 0, n
	if step < 0 {
		lower, upper = -1, n-1
	}
	clamp := func(v int, has bool, dflt int) int {
		if !has {
			return dflt
		}
		if v < 0 {
			v += n // v < 0 <= n: cannot overflow
			if v < lower {
				v = lower
			}
			return v
		}
		if v > upper {
			v = upper
		}
		return v
	}
	var out []int
	if step > 0 {
		s := clamp(start, hasStart, lower)
		e := clamp(end, hasEnd, upper)
		for i := s; i < e; {
			out = append(out, i)
			if step >= e-i { // next index would be >= e (e-i > 0: no overflow)
				break
			}
			i += step
		}
		return out
	}
	s := clamp(start, hasStart, upper)
	e := clamp(end, hasEnd, lower)
	for i := s; i > e; {
		out = append(out, i)
		if step <= e-i { // both negative; next index would be <= e
			break
		}
		i += step
	}
	return out
}

func zzIndexArray(n int) []interface{} {
	src := make([]interface{}, n)
	for i := range src {
		src[i] = float64(i)
	}
	return src
}

// zzH_C11_slice: `$[S:E:T]` with S, E, T numeral holes (each possibly
// omitted, per the "form" parameter) ranging over all of int64, length
// 0..maxlen, elements equal to their own index.
func zzH_C11_slice() {
	zzDeclHoles()
	form := zzParam("form") // three characters, 'h' = hole present, '-' = omitted, '2' in third place = two-part form
	path := zzPath("path")
	f, perr := Parse(path)
	zzAssert(perr == nil && f != nil, "parse")
	if perr != nil || f == nil {
		return
	}
	start, end, step := 0, 0, 0
	if form[0] == 'h' {
		start = zzInt("start")
	}
	if form[1] == 'h' {
		end = zzInt("end")
	}
	if form[2] == 'h' {
		step = zzInt("step")
	}
	n := zzIntRange("len", zzParamInt("minlen"), zzParamInt("maxlen"))
	src := zzIndexArray(n)
	got, err, pan := zzTry(f, src)
	zzAssert(pan == nil, "no-panic")
	if pan != nil {
		return
	}
	want := zzPySlice(start, form[0] == 'h', end, form[1] == 'h', step, form[2] == 'h', n)
	zzOut("n", n)
	zzOut("got", got)
	zzOut("err", err)
	if len(want) == 0 {
		zzAssert(got == nil && zzErrKind(err) == "MemberNotExist", "empty-is-error")
		return
	}
	zzAssert(err == nil, "nonempty-no-error")
	zzAssert(len(got) == len(want), "slice-length")
	if len(got) != len(want) {
		return
	}
	for k := range want {
		v, ok := got[k].(float64)
		zzAssert(ok && float64(int(v)) == v && int(v) == want[k], "slice-element")
	}
}

// zzH_C11_index: `$[N]`, N any int64.
func zzH_C11_index() {
	zzDeclHoles()
	path := zzPath("path")
	f, perr := Parse(path)
	zzAssert(perr == nil && f != nil, "parse")
	if perr != nil || f == nil {
		return
	}
	idx := zzInt("index")
	n := zzIntRange("len", zzParamInt("minlen"), zzParamInt("maxlen"))
	src := zzIndexArray(n)
	got, err, pan := zzTry(f, src)
	zzAssert(pan == nil, "no-panic")
	if pan != nil {
		return
	}
	zzOut("n", n)
	zzOut("got", got)
	zzOut("err", err)
	want := -1
	if idx >= 0 && idx < n {
		want = idx
	} else if idx < 0 && idx >= -n {
		want = idx + n
	}
	if want < 0 {
		zzAssert(got == nil && zzErrKind(err) == "MemberNotExist", "empty-is-error")
		return
	}
	zzAssert(err == nil && len(got) == 1, "index-one-result")
	if err == nil && len(got) == 1 {
		v, ok := got[0].(float64)
		zzAssert(ok && float64(int(v)) == v && int(v) == want, "index-element")
	}
}
