//go:build verif

package jsonpath

func init() {
	zzHarnesses["zzH_C02"] = zzH_C02
	zzHarnesses["zzH_C17"] = zzH_C17
}

// zzSubject builds the string under test: either n fully symbolic ASCII
// bytes ("symlen" parameter) or a skeleton path with symbolic bytes at the
// positions listed in "holepos".
func zzSubject() string {
	if n := zzParamInt("symlen"); n > 0 {
		s := zzSymString("s", n)
		// job splitting: restrict the leading bytes to the given ranges
		if sp := zzParam("split"); sp != "" {
			for i, r := range zzSplit(sp, ',') {
				lh := zzSplit(r, '-')
				zzAssume(int(s[i]) >= zzAtoi(lh[0]) && int(s[i]) <= zzAtoi(lh[1]))
			}
		}
		return s
	}
	return zzHoleBytes(zzParam("path"), zzParam("holepos"), "h")
}

// zzH_C02: Parse is total.
func zzH_C02() {
	zzDeclHoles()
	s := zzSubject()
	cfg := zzConfig()
	f, err, pan := zzTryParse(s, cfg)
	zzAssert(pan == nil, "no-panic")
	zzAssert(zzMutexFree(), "mutex-free")
	zzAssert(zzParserClean(), "parser-state-reset")
	if pan != nil {
		return
	}
	zzAssert((f != nil) != (err != nil), "function-xor-error")
	kind := zzErrKind(err)
	if err != nil {
		zzAssert(kind == "InvalidSyntax" || kind == "InvalidArgument" || kind == "FunctionNotFound" || kind == "NotSupported", "documented-parse-error")
	}
	zzOutStr("kind", kind)
	if f != nil && zzParam("eval") == "1" {
		// a parsed function must be usable
		_, _, epan := zzTry(f, zzDoc("doc"))
		zzAssert(epan == nil, "parsed-function-usable")
	}
}
