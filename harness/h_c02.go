//go:build verif

package jsonpath

func init() {
	zzHarnesses["zzH_C02"] = zzH_C02
	zzHarnesses["zzH_C17"] = zzH_C17
}

// zzSubject builds the string under test: either n fully symbolic ASCII
// bytes ("symlen" parameter) or a skeleton path with symbolic bytes at the
// positions listed in "holepos".
func zzSubject() string {
	if n := zzParamInt("symlen"); n > 0 {
		s := zzSymString("s", n)
		// job splitting: restrict the leading bytes to the given ranges
		if sp := zzParam("split"); sp != "" {
			for i, r := range zzSplit(sp, ',') {
				lh := zzSplit(r, '-')
				zzAssume(int(s[i]) >= zzAtoi(lh[0]) && int(s[i]) <= zzAtoi(lh[1]))
			}
		}
		return s
	}
	return zzHoleBytes(zzParam("path"), zzParam("holepos"), "h")
}

// zzH_C02: Parse is total.
func zzH_C02() {
	zzDeclHoles()
	s := zzSubject()
	cfg := zzConfig()
	f, err, pan := zzTryParse(s, cfg)
	zzAssert(pan == nil, "no-panic")
	zzAssert(zzMutexFree(), "mutex-free")
	zzAssert(zzParserClean(), "parser-state-reset")
	if pan != nil {
		return
	}
	zzAssert((f != nil) != (err != nil), "function-xor-error")
	kind := zzErrKind(err)
	if err != nil {
		zzAssert(kind == "InvalidSyntax" || kind == "InvalidArgument" || kind == "FunctionNotFound" || kind == "NotSupported", "documented-parse-error")
	}
	zzOutStr("kind", kind)
	if f != nil && zzParam("eval") == "1" {
		// a parsed function must be usable
		_, _, epan := zzTry(f, zzDoc("doc"))
		zzAssert(epan == nil, "parsed-function-usable")
	}
}

func init() { zzHarnesses["zzH_C17_restrict"] = zzH_C17_restrict }

// zzH_C17_restrict: documented semantic restrictions decided on strings with
// free bytes. "two-current": `$[?(@.a` + free bytes + `@.b)]` may only be
// accepted when the free bytes are a logical operator (any comparison between
// two `@` operands is prohibited). "script": `$[(` + free bytes + `)]` is
// never accepted.
func zzH_C17_restrict() {
	kind := zzParam("restriction")
	s := zzHoleBytes(zzParam("path"), zzParam("holepos"), "h")
	lo, n := zzParamInt("lo"), zzParamInt("n")
	if kind == "two-current" {
		// assumptions come before the code they constrain
		mid := s[lo : lo+n]
		blank := true
		for i := 0; i < len(mid); i++ {
			c := mid[i]
			zzAssume(c == '=' || c == '!' || c == '<' || c == '>' || c == '~' || c == ' ')
			if c != ' ' {
				blank = false
			}
		}
		zzAssume(!blank)
	}
	f, err, pan := zzTryParse(s, zzConfig())
	zzAssert(pan == nil, "no-panic")
	if pan != nil {
		return
	}
	zzOutStr("kind", zzErrKind(err))
	switch kind {
	case "two-current":
		// the free bytes range over the characters comparison operators are made of
		// (and blanks): whatever operator they spell, two `@` operands must be rejected
		zzAssert(f == nil && err != nil, "comparison-of-two-current-nodes-is-rejected")
		if err != nil {
			zzAssert(zzErrKind(err) == "InvalidSyntax", "comparison-of-two-current-nodes-is-rejected")
		}
	case "script":
		zzAssert(f == nil && err != nil, "script-is-rejected")
		if err != nil {
			k := zzErrKind(err)
			zzAssert(k == "NotSupported" || k == "InvalidSyntax", "script-is-rejected")
		}
	}
}
