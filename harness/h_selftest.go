//go:build verif

package jsonpath

func init() {
	zzHarnesses["zzH_Concrete"] = zzH_Concrete
}

// zzH_Concrete evaluates one concrete (path, JSON document) pair; used to
// validate the engine against the native build on the repository's own test
// inputs.
func zzH_Concrete() {
	path := zzParam("path")
	doc := zzJSON("json")
	res, err := Retrieve(path, doc)
	if err != nil {
		zzOut("err", err)
	} else {
		zzOut("res", res)
	}
	zzOut("doc", doc)
}
