//go:build verif

package jsonpath

// Error oracle of C15: which (step, failure) pairs really occur, and which of
// them may be reported when retrieval fails. Depth is measured in half steps
// so that the selector after `..` counts as deeper than the descent itself.

type zzFailure struct {
	depth int
	text  string // the rendered error message
	typeU bool   // a type mismatch (least preferred at equal depth)
}

type zzErrSpec struct {
	sp    *zzSpec
	fails []zzFailure
}

func zzMsgMNE(text string) string { return "member did not exist (path=" + text + ")" }
func zzMsgTU(expected, found, text string) string {
	return "type unmatched (expected=" + expected + ", found=" + found + ", path=" + text + ")"
}
func zzMsgFF(text, fn string) string {
	if fn == "failrt" {
		// failrt returns one of the library's own runtime errors, which is wrapped like any other
		return "function failed (function=" + text + ", error=member did not exist (path=.zzforeign))"
	}
	return "function failed (function=" + text + ", error=user function " + fn + " failed)"
}

func (e *zzErrSpec) fail(depth int, msg string, typeU bool) {
	e.fails = append(e.fails, zzFailure{depth: depth, text: msg, typeU: typeU})
}

// failureOf records why applying step (written as text) to node n selected nothing.
func (e *zzErrSpec) failureOf(step *zzN, text string, n zzNode, depth int) {
	_, isMap := n.v.(map[string]interface{})
	_, isArr := n.v.([]interface{})
	found := zzTypeName(n.v)
	switch step.atom {
	case "name":
		if isMap {
			e.fail(depth, zzMsgMNE(text), false)
		} else {
			e.fail(depth, zzMsgTU("object", found, text), true)
		}
	case "multi":
		allWild := true
		for _, s := range step.kids {
			if s.atom != "*" {
				allWild = false
			}
		}
		if isMap || (isArr && allWild) {
			e.fail(depth, zzMsgMNE(text), false)
		} else {
			e.fail(depth, zzMsgTU("object", found, text), true)
		}
	case "wild", "filter":
		if isMap || isArr {
			e.fail(depth, zzMsgMNE(text), false)
		} else {
			e.fail(depth, zzMsgTU("object/array", found, text), true)
		}
	case "union":
		if isArr {
			e.fail(depth, zzMsgMNE(text), false)
		} else {
			e.fail(depth, zzMsgTU("array", found, text), true)
		}
	case "func":
		e.fail(depth, zzMsgFF(text, step.kids[0].atom), false)
	case "agg":
		e.fail(depth, zzMsgFF(text, step.kids[0].atom), false)
	}
}

// run evaluates the path step by step, recording every (node, step) failure.
func (e *zzErrSpec) run(steps []*zzN, texts []string, doc interface{}) []zzNode {
	sp := e.sp
	nodes := []zzNode{{v: doc, loc: 3}}
	sp.multi = false
	ti := 0
	for si, st := range steps {
		depth := 2 * (si + 1)
		var out []zzNode
		switch st.atom {
		case "desc":
			x := st.kids[0]
			dtext, xtext := texts[ti], texts[ti+1]
			ti += 2
			for _, n := range nodes {
				if !zzIsContainer(n.v) {
					e.fail(depth, zzMsgTU("object/array", zzTypeName(n.v), dtext), true)
					continue
				}
				var got []zzNode
				applied := false
				for _, c := range zzPreorder(n.v, nil) {
					_, isMap := c.(map[string]interface{})
					if (x.atom == "name" && !isMap) || (x.atom == "union" && isMap) {
						continue
					}
					applied = true
					r := sp.applyStep(x, []zzNode{{v: c}})
					if len(r) == 0 {
						e.failureOf(x, xtext, zzNode{v: c}, depth+1)
					}
					got = append(got, r...)
				}
				if len(got) == 0 && !applied {
					e.fail(depth, zzMsgMNE(dtext), false)
				}
				out = append(out, got...)
			}
		case "agg":
			text := texts[ti]
			ti++
			if len(nodes) > 0 {
				out = sp.applyStep(st, nodes)
				if len(out) == 0 {
					e.failureOf(st, text, zzNode{}, depth)
				}
			}
		default:
			text := texts[ti]
			ti++
			for _, n := range nodes {
				r := sp.applyStep(st, []zzNode{n})
				if len(r) == 0 {
					e.failureOf(st, text, n, depth)
				}
				out = append(out, r...)
			}
		}
		nodes = out
		if st.atom == "agg" {
			sp.multi = false
		} else if zzStepIsMulti(st) {
			sp.multi = true
		}
	}
	return nodes
}

// admissible returns the messages that may be reported: failures at the
// deepest failing depth, non-type failures preferred.
func (e *zzErrSpec) admissible() []string {
	max := -1
	for _, f := range e.fails {
		if f.depth > max {
			max = f.depth
		}
	}
	hasNonType := false
	for _, f := range e.fails {
		if f.depth == max && !f.typeU {
			hasNonType = true
		}
	}
	var out []string
	for _, f := range e.fails {
		if f.depth == max && (!hasNonType || !f.typeU) {
			out = append(out, f.text)
		}
	}
	return out
}

func init() { zzHarnesses["zzH_C15"] = zzH_C15 }

// zzH_C15: the reported runtime error names a real failing step.
func zzH_C15() {
	if zzParam("opaque") == "1" {
		zzOpaqueInit(zzOpaqueProtos())
		// earlier failures on ordinary JSON values of every container kind, and on another struct and
		// pointer type: the type named by a later error must still be the type of the value it is about
		Retrieve("$.a", []interface{}{1.0})
		Retrieve("$[0]", map[string]interface{}{"a": 1.0})
		Retrieve("$.a", zzOpNested{})
		var other *zzOpStruct
		Retrieve("$.a", other)
		Retrieve("$.a", "s")
		Retrieve("$.a", 1.0)
	}
	zzDeclHoles()
	path := zzPath("path")
	cfg := zzConfig()
	f := zzMustParse(path, cfg, "corpus-path-parses")
	if f == nil {
		return
	}
	doc := zzDoc("doc")
	_, err, pan := zzTry(f, doc)
	zzAssert(pan == nil, "no-panic")
	if pan != nil || err == nil {
		return
	}
	ast := zzParseSexp(zzParam("ast"))
	texts := zzSplit(zzPath("texts"), '\n')
	es := &zzErrSpec{sp: &zzSpec{root: doc}}
	nodes := es.run(ast.kids, texts, doc)
	zzAssert(len(nodes) == 0, "fails-iff-spec-selects-nothing")
	if len(nodes) != 0 {
		return
	}
	adm := es.admissible()
	zzAssert(len(adm) > 0, "spec-has-a-failure")
	msg := err.Error()
	hit := false
	for _, a := range adm {
		if a == msg {
			hit = true
		}
	}
	zzOutStr("err", msg)
	zzAssert(hit, "error-names-a-deepest-real-failure")
	kind := zzErrKind(err)
	zzAssert(kind == "MemberNotExist" || kind == "TypeUnmatched" || kind == "FunctionFailed", "documented-runtime-error")
	if zzParam("single") == "1" {
		zzAssert(len(adm) == 1, "single-valued-path-has-one-candidate")
	}
}
