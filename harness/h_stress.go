//go:build verif

package jsonpath

import "sync"

func init() {
	zzHarnesses["zzH_Stress"] = zzH_Stress
}

func zzQuietConfig() []Config {
	name := zzParam("config")
	if name == "" {
		return nil
	}
	c := Config{}
	if name == "funcs" || name == "funcs+accessor" {
		for _, n := range []string{"f", "g", "failnum"} {
			n := n
			c.SetFilterFunction(n, func(v interface{}) (interface{}, error) { return zzWrapped{fn: n, arg: v}, nil })
		}
		c.SetFilterFunction("fail", func(v interface{}) (interface{}, error) { return nil, zzErrUser{fn: "fail"} })
		for _, n := range []string{"agg", "agh"} {
			n := n
			c.SetAggregateFunction(n, func(v []interface{}) (interface{}, error) {
				cp := make([]interface{}, len(v))
				copy(cp, v)
				return zzWrappedAgg{fn: n, args: cp}, nil
			})
		}
		c.SetAggregateFunction("aggfail", func(v []interface{}) (interface{}, error) { return nil, zzErrUser{fn: "aggfail"} })
	}
	if name == "accessor" || name == "funcs+accessor" {
		c.SetAccessorMode()
	}
	return []Config{c}
}

// zzH_Stress is never run by the engine. It is the native confirmation of
// discipline candidates (C05/C06): goroutines share one parsed function and
// one document while others parse; run under the race detector.
func zzH_Stress() {
	path := zzPath("path")
	cfg := zzQuietConfig()
	// every document of the fixture takes part (a history's documents may differ in what they trigger)
	var docs []interface{}
	for _, name := range []string{"doc", "doc1", "doc2", "doc3"} {
		if _, ok := zzFx.Docs[name]; ok {
			docs = append(docs, zzDoc(name))
		}
	}
	if len(docs) == 0 {
		docs = append(docs, nil)
	}
	doc := docs[0]
	f, err := Parse(path, cfg...)
	if err != nil {
		// a path that does not parse: hammer Parse itself
		var wg sync.WaitGroup
		for g := 0; g < 8; g++ {
			wg.Add(1)
			go func() {
				defer wg.Done()
				for i := 0; i < 200; i++ {
					Parse(path, cfg...)
					Parse(`$.a[?(@.b == 1)]`)
				}
			}()
		}
		wg.Wait()
		return
	}
	type outcome struct {
		r []interface{}
		e error
	}
	var base []outcome
	for _, d := range docs {
		r, e := f(d)
		base = append(base, outcome{r, e})
	}
	_ = doc
	var mu sync.Mutex
	diffs := 0
	var wg sync.WaitGroup
	for g := 0; g < 8; g++ {
		wg.Add(1)
		go func(g int) {
			defer wg.Done()
			for i := 0; i < 300; i++ {
				switch g % 4 {
				case 0, 1:
					di := (i + g) % len(docs)
					r, e := f(docs[di])
					r0, e0 := base[di].r, base[di].e
					bad := (e == nil) != (e0 == nil) || len(r) != len(r0)
					if !bad && e == nil {
						for k := range r {
							if _, isAcc := r[k].(Accessor); isAcc {
								continue
							}
							if !zzSame(r[k], r0[k]) {
								bad = true
							}
						}
					}
					if bad {
						mu.Lock()
						diffs++
						mu.Unlock()
					}
				case 2:
					Parse(path, cfg...)
					Parse(`$..[?(@.a > 1 && $.b != 'x')]`)
				case 3:
					Retrieve(`$..*`, map[string]interface{}{"k": []interface{}{1.0, map[string]interface{}{"z": 2.0}}, "j": 3.0})
					Retrieve(`$[?(@.a == 1)]`, []interface{}{map[string]interface{}{"a": 1.0}, 2.0})
				}
			}
		}(g)
	}
	wg.Wait()
	zzAssert(diffs == 0, "concurrent-result-equals-sequential")
}
