//go:build verif

package jsonpath

import "sync"

func init() {
	zzHarnesses["zzH_Stress"] = zzH_Stress
}

func zzQuietConfig() []Config {
	name := zzParam("config")
	if name == "" {
		return nil
	}
	c := Config{}
	if name == "funcs" || name == "funcs+accessor" {
		for _, n := range []string{"f", "g", "failnum"} {
			n := n
			c.SetFilterFunction(n, func(v interface{}) (interface{}, error) { return zzWrapped{fn: n, arg: v}, nil })
		}
		c.SetFilterFunction("fail", func(v interface{}) (interface{}, error) { return nil, zzErrUser{fn: "fail"} })
		for _, n := range []string{"agg", "agh"} {
			n := n
			c.SetAggregateFunction(n, func(v []interface{}) (interface{}, error) {
				cp := make([]interface{}, len(v))
				copy(cp, v)
				return zzWrappedAgg{fn: n, args: cp}, nil
			})
		}
		c.SetAggregateFunction("aggfail", func(v []interface{}) (interface{}, error) { return nil, zzErrUser{fn: "aggfail"} })
	}
	if name == "accessor" || name == "funcs+accessor" {
		c.SetAccessorMode()
	}
	return []Config{c}
}

// zzH_Stress is never run by the engine. It is the native confirmation of
// discipline candidates (C05/C06): goroutines share one parsed function and
// the documents of the fixture while others parse; run under the race
// detector. The concurrent phase comes first (so that one-time writes such as
// caches and growing tables happen concurrently); the sequential baseline is
// taken afterwards from a freshly parsed function.
func zzH_Stress() {
	path := zzPath("path")
	cfg := zzQuietConfig()
	var docs []interface{}
	if zzParam("json") != "" {
		docs = append(docs, zzJSON("json"), zzJSON("json"))
	}
	for _, name := range []string{"doc", "doc1", "doc2", "doc3"} {
		if _, ok := zzFx.Docs[name]; ok {
			docs = append(docs, zzDoc(name))
		}
	}
	if len(docs) == 0 {
		docs = append(docs, nil)
	}
	f, err := Parse(path, cfg...)
	if err != nil {
		// a path that does not parse: hammer Parse itself
		var wg sync.WaitGroup
		for g := 0; g < 8; g++ {
			wg.Add(1)
			go func() {
				defer wg.Done()
				for i := 0; i < 200; i++ {
					Parse(path, cfg...)
					Parse(`$.a[?(@.b == 1)]`)
				}
			}()
		}
		wg.Wait()
		return
	}
	render := func(r []interface{}, e error) string {
		if e != nil {
			return "E:" + zzErrKind(e)
		}
		out := make([]interface{}, len(r))
		for k := range r {
			if a, isAcc := r[k].(Accessor); isAcc {
				out[k] = a.Get()
			} else {
				out[k] = r[k]
			}
		}
		return zzRender(out)
	}
	const workers = 8
	seen := make([][]string, workers) // per goroutine: rendered results, tagged with the document index
	var wg sync.WaitGroup
	for g := 0; g < workers; g++ {
		wg.Add(1)
		go func(g int) {
			defer wg.Done()
			for i := 0; i < 200; i++ {
				switch g % 4 {
				case 0, 1, 2:
					di := (i + g) % len(docs)
					r, e := f(docs[di])
					if i%8 == 0 || i < 4 {
						seen[g] = append(seen[g], string(rune('0'+di))+render(r, e))
					}
				case 3:
					Parse(path, cfg...)
					Parse(`$..[?(@.a > 1 && $.b != 'x')]`)
					Retrieve(`$..*`, map[string]interface{}{"k": []interface{}{1.0, map[string]interface{}{"z": 2.0}}, "j": 3.0})
				}
			}
		}(g)
	}
	wg.Wait()
	// sequential baseline from a freshly parsed function
	f2, err2 := Parse(path, cfg...)
	zzAssert(err2 == nil, "concurrent-result-equals-sequential")
	if err2 != nil {
		return
	}
	base := make([]string, len(docs))
	for di := range docs {
		r, e := f2(docs[di])
		base[di] = string(rune('0'+di)) + render(r, e)
	}
	diffs := 0
	for g := range seen {
		for _, s := range seen[g] {
			if s != base[int(s[0]-'0')] {
				diffs++
			}
		}
	}
	zzAssert(diffs == 0, "concurrent-result-equals-sequential")
}
