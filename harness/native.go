//go:build verif

package jsonpath

// Native implementations of the harness intrinsics. The symbolic engine
// intercepts every function whose name starts with "zz" and appears in its
// intrinsic table, so these bodies only run in native replays, where they
// read the concrete fixture produced from a solver model.

import (
	"encoding/json"
	"fmt"
	"math"
	"os"
	"os/exec"
	"reflect"
	"regexp"
	"sort"
	"strconv"
	"strings"
)

type zzFixture struct {
	Harness string                     `json:"harness"`
	Job     string                     `json:"job"`
	Params  map[string]string          `json:"params"`
	Ints    map[string]int64           `json:"ints"`
	Floats  map[string]string          `json:"floats"`
	Bools   map[string]bool            `json:"bools"`
	Bytes   map[string]int             `json:"bytes"`
	Holes   map[string]string          `json:"holes"`
	Docs    map[string]json.RawMessage `json:"docs"`
	Choices map[string]int             `json:"choices"`
	Out     map[string]string          `json:"out"`
	Viol    []string                   `json:"violations"`
	Panics  bool                       `json:"panics"`
}

type zzTree struct {
	K    string             `json:"k"`
	B    bool               `json:"b"`
	Bits string             `json:"bits"`
	S    string             `json:"s"`
	M    map[string]*zzTree `json:"m"`
	E    []*zzTree          `json:"e"`
	I    int                `json:"i"`
}

type zzSkip struct{}

var (
	zzFx        *zzFixture
	zzFailed    []string
	zzOutMap    map[string]string
	zzLogLines  []string
	zzDocs      []zzDocSnap
	zzHarnesses = map[string]func(){}
	zzOpaque    []interface{}
)

type zzDocSnap struct {
	live interface{}
	snap interface{}
}

func zzReset(fx *zzFixture) {
	zzFx = fx
	zzFailed = nil
	zzOutMap = map[string]string{}
	zzLogLines = nil
	zzDocs = nil
	zzDocSlices = map[*interface{}]bool{}
	zzSharedCfg = nil
}

func zzEngine() bool { return false }

func zzParam(name string) string { return zzFx.Params[name] }

// zzPath returns a path parameter with every numeral hole replaced by the
// literal chosen by the solver.
func zzPath(name string) string {
	p := zzFx.Params[name]
	keys := make([]string, 0, len(zzFx.Holes))
	for k := range zzFx.Holes {
		keys = append(keys, k)
	}
	sort.Strings(keys)
	for _, k := range keys {
		p = strings.ReplaceAll(p, k, zzFx.Holes[k])
	}
	return p
}

func zzInt(name string) int                  { return int(zzFx.Ints[name]) }
func zzIntRange(name string, lo, hi int) int { return int(zzFx.Ints[name]) }
func zzBool(name string) bool                { return zzFx.Bools[name] }
func zzByte(name string) byte                { return byte(zzFx.Bytes[name]) }
func zzFloat(name string) float64 {
	u, _ := strconv.ParseUint(zzFx.Floats[name], 16, 64)
	return math.Float64frombits(u)
}
func zzHoleInt(text, name string)       {}
func zzHoleIntErr(text, literal string) {}
func zzHoleFloat(text, name string)     {}

func zzSymString(name string, n int) string {
	b := make([]byte, n)
	for i := range b {
		b[i] = byte(zzFx.Bytes[fmt.Sprintf("%s[%d]", name, i)])
	}
	return string(b)
}

func zzBuild(t *zzTree) interface{} {
	if t == nil {
		return nil
	}
	switch t.K {
	case "nil":
		return nil
	case "bool":
		return t.B
	case "float":
		u, _ := strconv.ParseUint(t.Bits, 16, 64)
		return math.Float64frombits(u)
	case "string":
		return t.S
	case "number":
		return json.Number(t.S)
	case "map":
		m := make(map[string]interface{}, len(t.M))
		for k, c := range t.M {
			m[k] = zzBuild(c)
		}
		return m
	case "array":
		a := make([]interface{}, len(t.E))
		for i, c := range t.E {
			a[i] = zzBuild(c)
		}
		return a
	case "opaque":
		return zzOpaque[t.I]
	}
	panic("zzBuild: unknown kind " + t.K)
}

// zzCopy deep-copies JSON containers (leaves, including opaque ones, are shared).
func zzCopy(v interface{}) interface{} {
	switch x := v.(type) {
	case map[string]interface{}:
		m := make(map[string]interface{}, len(x))
		for k, c := range x {
			m[k] = zzCopy(c)
		}
		return m
	case []interface{}:
		a := make([]interface{}, len(x))
		for i, c := range x {
			a[i] = zzCopy(c)
		}
		return a
	}
	return v
}

func zzDoc(name string) interface{} {
	var t zzTree
	if err := json.Unmarshal(zzFx.Docs[name], &t); err != nil {
		panic("fixture document " + name + ": " + err.Error())
	}
	d := zzBuild(&t)
	zzDocs = append(zzDocs, zzDocSnap{live: d, snap: zzCopy(d)})
	zzNoteDocSlices(d)
	return d
}

// zzDocSlices: the arrays that belong to input documents (by the address of
// their first element); zzSnap leaves them shared, as the engine does.
var zzDocSlices = map[*interface{}]bool{}

func zzNoteDocSlices(v interface{}) {
	switch x := v.(type) {
	case map[string]interface{}:
		for _, c := range x {
			zzNoteDocSlices(c)
		}
	case []interface{}:
		if len(x) > 0 {
			zzDocSlices[&x[0]] = true
		}
		for _, c := range x {
			zzNoteDocSlices(c)
		}
	}
}

// zzSnap copies, recursively, every slice in v that is not an array of an
// input document.
func zzSnap(v interface{}) interface{} {
	x, ok := v.([]interface{})
	if !ok || len(x) == 0 || zzDocSlices[&x[0]] {
		return v
	}
	cp := make([]interface{}, len(x))
	for i := range x {
		cp[i] = zzSnap(x[i])
	}
	return cp
}

// zzJSON decodes a JSON text parameter (param "usenumber"=="1" selects json.Number).
func zzJSON(name string) interface{} {
	dec := json.NewDecoder(strings.NewReader(zzFx.Params[name]))
	if zzFx.Params["usenumber"] == "1" {
		dec.UseNumber()
	}
	var v interface{}
	if err := dec.Decode(&v); err != nil {
		panic("zzJSON: " + err.Error())
	}
	zzDocs = append(zzDocs, zzDocSnap{live: v, snap: zzCopy(v)})
	zzNoteDocSlices(v)
	return v
}

func zzAssume(c bool) {
	if !c {
		panic(zzSkip{})
	}
}

func zzAssert(c bool, label string) {
	if !c {
		zzFailed = append(zzFailed, label)
	}
}

func zzFail(label, detail string) { zzFailed = append(zzFailed, label) }
func zzLog(msg string)            { zzLogLines = append(zzLogLines, msg) }

func zzOut(key string, v interface{}) { zzOutMap[key] = zzRender(v) }
func zzOutStr(key, v string)          { zzOutMap[key] = "s:" + strconv.Quote(v) }

func zzDeepEqual(a, b interface{}) bool             { return reflect.DeepEqual(a, b) }
func zzIsNaN(f float64) bool                        { return f != f }
func zzFloatEq(a, b float64) bool                   { return a == b }
func zzStrEq(a, b string) bool                      { return a == b }
func zzMutexFree() bool                             { return true }
func zzRegexMatch(re *regexp.Regexp, s string) bool { return re.MatchString(s) }

func zzNumValue(v interface{}) float64 {
	switch x := v.(type) {
	case float64:
		return x
	case json.Number:
		f, _ := x.Float64()
		return f
	}
	return 0
}

func zzKindOf(v interface{}) string {
	if v == nil {
		return "null"
	}
	return reflect.TypeOf(v).String()
}

func zzTypeName(v interface{}) string { return zzKindOf(v) }

func zzSortedKeys(v interface{}) []string {
	m, ok := v.(map[string]interface{})
	if !ok {
		return nil
	}
	keys := make([]string, 0, len(m))
	for k := range m {
		keys = append(keys, k)
	}
	sort.Strings(keys)
	return keys
}

// zzSame is identity of values: like reflect.DeepEqual but NaN is the same
// value as NaN and uncomparable opaque values never panic.
func zzSame(a, b interface{}) bool {
	switch x := a.(type) {
	case nil:
		return b == nil
	case float64:
		y, ok := b.(float64)
		return ok && (math.Float64bits(x) == math.Float64bits(y) || (x != x && y != y))
	case map[string]interface{}:
		y, ok := b.(map[string]interface{})
		if !ok || len(x) != len(y) {
			return false
		}
		for k, c := range x {
			d, ok := y[k]
			if !ok || !zzSame(c, d) {
				return false
			}
		}
		return true
	case []interface{}:
		y, ok := b.([]interface{})
		if !ok || len(x) != len(y) {
			return false
		}
		for i := range x {
			if !zzSame(x[i], y[i]) {
				return false
			}
		}
		return true
	case Accessor:
		return false
	case zzWrapped:
		y, ok := b.(zzWrapped)
		return ok && x.fn == y.fn && zzSame(x.arg, y.arg)
	case zzWrappedAgg:
		y, ok := b.(zzWrappedAgg)
		if !ok || x.fn != y.fn || len(x.args) != len(y.args) {
			return false
		}
		for i := range x.args {
			if !zzSame(x.args[i], y.args[i]) {
				return false
			}
		}
		return true
	}
	if b == nil {
		return false
	}
	if reflect.TypeOf(a) != reflect.TypeOf(b) {
		return false
	}
	va, vb := reflect.ValueOf(a), reflect.ValueOf(b)
	switch va.Kind() {
	case reflect.Func:
		return va.Pointer() == vb.Pointer()
	case reflect.Map, reflect.Slice:
		if va.Pointer() == vb.Pointer() && va.Len() == vb.Len() {
			return true
		}
		return reflect.DeepEqual(a, b)
	}
	if reflect.TypeOf(a).Comparable() {
		return a == b
	}
	return reflect.DeepEqual(a, b)
}

func zzDocUnchanged() bool {
	for _, d := range zzDocs {
		if !zzSame(d.live, d.snap) {
			return false
		}
	}
	return true
}

// zzRender prints a value in the canonical output format of the engine.
func zzRender(v interface{}) string {
	if v != nil && len(zzOpaque) > 0 {
		for i, o := range zzOpaque {
			if reflect.TypeOf(o) != reflect.TypeOf(v) {
				continue
			}
			switch reflect.TypeOf(o).Kind() {
			case reflect.Map, reflect.Slice:
				if reflect.ValueOf(o).Pointer() != reflect.ValueOf(v).Pointer() {
					continue
				}
				if reflect.ValueOf(o).IsNil() {
					continue // nil JSON containers print like empty ones
				}
			case reflect.Func:
				if reflect.ValueOf(o).Pointer() != reflect.ValueOf(v).Pointer() {
					continue
				}
			default:
				if reflect.TypeOf(o).Comparable() && o != v {
					continue
				}
			}
			return fmt.Sprintf("o:%d", i)
		}
	}
	switch x := v.(type) {
	case nil:
		return "null"
	case bool:
		return fmt.Sprint(x)
	case int:
		return fmt.Sprint(x)
	case float64:
		return fmt.Sprintf("f:%016x", math.Float64bits(x))
	case string:
		return "s:" + strconv.Quote(x)
	case json.Number:
		return "n:" + strconv.Quote(string(x))
	case map[string]interface{}:
		keys := zzSortedKeys(x)
		parts := make([]string, len(keys))
		for i, k := range keys {
			parts[i] = strconv.Quote(k) + ":" + zzRender(x[k])
		}
		return "{" + strings.Join(parts, ",") + "}"
	case []interface{}:
		parts := make([]string, len(x))
		for i, c := range x {
			parts[i] = zzRender(c)
		}
		return "[" + strings.Join(parts, ",") + "]"
	case []string:
		parts := make([]string, len(x))
		for i, c := range x {
			parts[i] = "s:" + strconv.Quote(c)
		}
		return "[" + strings.Join(parts, ",") + "]"
	case error:
		return "E:" + reflect.TypeOf(x).String() + ":" + x.Error()
	case zzWrapped:
		return "W:" + x.fn + "(" + zzRender(x.arg) + ")"
	case zzWrappedAgg:
		return "A:" + x.fn + "(" + zzRender(x.args) + ")"
	case Accessor:
		return "Acc(" + zzRender(x.Get()) + ")"
	}
	for i, o := range zzOpaque {
		if reflect.TypeOf(o) == reflect.TypeOf(v) {
			if reflect.TypeOf(o).Comparable() && o != v {
				continue // e.g. typed nil pointer vs. non-nil pointer
			}
			return fmt.Sprintf("o:%d", i)
		}
	}
	return "T:" + reflect.TypeOf(v).String()
}

// engine-only observations have trivial native counterparts: the native run
// observes their consequences through results instead.
func zzEpoch() int                            { return 0 }
func zzFresh(v []interface{}, epoch int) bool { return true }
func zzTreeMark(f interface{})                {}
func zzTreeUnchanged() bool                   { return true }
func zzPoisonClean() bool                     { return true }
func zzAccessStart()                          {}
func zzAccessCheck() bool                     { return true }
func zzParserClean() bool {
	return reflect.DeepEqual(parser.jsonPathParser, jsonPathParser{})
}
func zzOpaqueInit(protos []interface{}) { zzOpaque = protos }

func zzParamInt(name string) int {
	n, _ := strconv.Atoi(zzFx.Params[name])
	return n
}

// zzTwin returns a copy of a float64-decoded document in which every number
// is a json.Number in Go's shortest formatting (what UseNumber would give for
// canonically spelled input).
func zzTwin(v interface{}) interface{} {
	switch x := v.(type) {
	case float64:
		return json.Number(strconv.FormatFloat(x, 'g', -1, 64))
	case map[string]interface{}:
		m := make(map[string]interface{}, len(x))
		for k, c := range x {
			m[k] = zzTwin(c)
		}
		return m
	case []interface{}:
		a := make([]interface{}, len(x))
		for i, c := range x {
			a[i] = zzTwin(c)
		}
		return a
	}
	return v
}

// zzRepeat: native replays repeat order-sensitive checks because Go randomises
// map iteration; the engine explores the orders explicitly instead.
func zzRepeat() int { return 300 }

// zzIsolated has no native counterpart (engine reachability); its consequence
// (no interference between calls) is observed by the C19/C05 histories.
func zzIsolated(f interface{}) bool { return true }

// zzHoleBytes returns path with the bytes at the listed positions (comma
// separated) replaced by the fixture's values.
func zzHoleBytes(path, positions, name string) string {
	b := []byte(path)
	if positions == "" {
		return path
	}
	for _, p := range strings.Split(positions, ",") {
		i, _ := strconv.Atoi(p)
		if v, ok := zzFx.Bytes[fmt.Sprintf("%s[%d]", name, i)]; ok && i < len(b) {
			b[i] = byte(v)
		}
	}
	return string(b)
}

// Package-level verdict lists are shared by every evaluation and must never change.
func zzGlobalsMark() {}
func zzGlobalsUnchanged() bool {
	return len(emptyList) == 1 && emptyList[0] == emptyEntity && len(fullList) == 1 && fullList[0] == true
}

// zzFreshOutcome: the outcome of Parse(path, config) made first in a fresh
// process. The engine evaluates it in a clone of the initial state; natively
// the test binary re-executes itself.
func zzFreshOutcome(path, cfgName string) string {
	cmd := exec.Command(os.Args[0], "-test.run", "^TestZZFreshOutcome$")
	cmd.Env = append(os.Environ(), "ZZ_FRESH_PATH="+path, "ZZ_FRESH_CFG="+cfgName)
	out, _ := cmd.CombinedOutput()
	for _, l := range strings.Split(string(out), "\n") {
		if strings.HasPrefix(l, "ZZOUT:") {
			s, err := strconv.Unquote(l[6:])
			if err == nil {
				return s
			}
		}
	}
	return "fresh process failed: " + string(out)
}
