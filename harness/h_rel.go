//go:build verif

package jsonpath

func init() {
	zzHarnesses["zzH_C08"] = zzH_C08
	zzHarnesses["zzH_C08_parts"] = zzH_C08_parts
	zzHarnesses["zzH_C08_desc"] = zzH_C08_desc
	zzHarnesses["zzH_C09"] = zzH_C09
	zzHarnesses["zzH_C12"] = zzH_C12
	zzHarnesses["zzH_C13"] = zzH_C13
	zzHarnesses["zzH_C18"] = zzH_C18
}

func zzSameSeq(a, b []interface{}) bool {
	if len(a) != len(b) {
		return false
	}
	for i := range a {
		if !zzSame(a[i], b[i]) {
			return false
		}
	}
	return true
}

// zzMustParse parses a corpus path that is expected to be valid.
func zzMustParse(path string, cfg []Config, label string) zzFunc {
	f, err, pan := zzTryParse(path, cfg)
	zzAssert(pan == nil && err == nil && f != nil, label)
	if pan != nil || err != nil {
		return nil
	}
	return f
}

// ---- C08: P followed by Q equals Q applied to each result of P ----

func zzH_C08() {
	zzDeclHoles()
	cfg := zzConfig()
	fF := zzMustParse(zzPath("path"), cfg, "corpus-path-parses")
	fP := zzMustParse(zzPath("p"), cfg, "corpus-path-parses")
	fQ := zzMustParse(zzPath("q"), cfg, "corpus-path-parses")
	if fF == nil || fP == nil || fQ == nil {
		return
	}
	doc := zzDoc("doc")
	r, rerr := fF(doc)
	ps, perr := fP(doc)
	var cat []interface{}
	if perr == nil {
		for _, x := range ps {
			qs, qerr := fQ(x)
			if qerr == nil {
				cat = append(cat, qs...)
			}
		}
	}
	zzOut("r", r)
	zzOut("rerr", rerr)
	zzOut("cat", cat)
	zzAssert((rerr == nil) == (len(cat) > 0), "compose-fails-iff-empty")
	if rerr == nil && len(cat) > 0 {
		zzAssert(zzSameSeq(r, cat), "compose-values")
	}
}

// zzH_C08_parts: a union / multi-name selector equals the concatenation of
// its single selectors ("parts" = paths separated by '|').
func zzH_C08_parts() {
	zzDeclHoles()
	cfg := zzConfig()
	fF := zzMustParse(zzPath("path"), cfg, "corpus-path-parses")
	if fF == nil {
		return
	}
	var fs []zzFunc
	for _, p := range zzSplit(zzPath("parts"), '|') {
		f := zzMustParse(p, cfg, "corpus-path-parses")
		if f == nil {
			return
		}
		fs = append(fs, f)
	}
	doc := zzDoc("doc")
	if zzParam("objects_only") == "1" {
		_, isMap := doc.(map[string]interface{})
		zzAssume(isMap)
	}
	if zzParam("objects_only") == "arrays" {
		_, isMap := doc.(map[string]interface{})
		zzAssume(!isMap)
	}
	r, rerr := fF(doc)
	var cat []interface{}
	for _, f := range fs {
		qs, qerr := f(doc)
		if qerr == nil {
			cat = append(cat, qs...)
		}
	}
	zzOut("r", r)
	zzOut("rerr", rerr)
	zzOut("cat", cat)
	zzAssert((rerr == nil) == (len(cat) > 0), "parts-fails-iff-empty")
	if rerr == nil && len(cat) > 0 {
		zzAssert(zzSameSeq(r, cat), "parts-values")
	}
}

// zzH_C08_desc: `..X` equals X applied to every container in pre-order.
func zzH_C08_desc() {
	zzDeclHoles()
	cfg := zzConfig()
	fF := zzMustParse(zzPath("path"), cfg, "corpus-path-parses") // $..X
	fX := zzMustParse(zzPath("q"), cfg, "corpus-path-parses")    // $X
	if fF == nil || fX == nil {
		return
	}
	doc := zzDoc("doc")
	// a Go-built document may reference one container from two places (it is a
	// DAG, not a tree): the container then counts once per place
	switch zzParam("shared") {
	case "obj":
		doc = map[string]interface{}{"p": doc, "q": doc}
	case "arr":
		doc = []interface{}{doc, doc}
	}
	r, rerr := fF(doc)
	var cat []interface{}
	for _, c := range zzPreorder(doc, nil) {
		qs, qerr := fX(c)
		if qerr == nil {
			cat = append(cat, qs...)
		}
	}
	zzOut("r", r)
	zzOut("rerr", rerr)
	zzOut("cat", cat)
	zzAssert((rerr == nil) == (len(cat) > 0), "descent-fails-iff-empty")
	if rerr == nil && len(cat) > 0 {
		zzAssert(zzSameSeq(r, cat), "descent-values")
	}
}

// ---- C09: selections as sets of member positions ----

type zzMarker struct{ i int }

// zzPositions evaluates `$[?(expr)]` in accessor mode and returns, per member
// position of the root container, whether the member was selected. Positions
// are observed by writing a marker through each accessor and scanning the
// container; the members are restored afterwards.
func zzPositions(expr string, doc interface{}, n int) ([]bool, bool) {
	c := Config{}
	zzAddFuncs(&c)
	c.SetAccessorMode()
	f, err, pan := zzTryParse("$[?("+expr+")]", []Config{c})
	zzAssert(pan == nil && err == nil && f != nil, "corpus-path-parses")
	sel := make([]bool, n)
	if pan != nil || err != nil || f == nil {
		return sel, false
	}
	res, rerr, rpan := zzTry(f, doc)
	zzAssert(rpan == nil, "no-panic")
	if rpan != nil {
		return sel, false
	}
	if rerr != nil {
		return sel, true
	}
	orig := make([]interface{}, len(res))
	for i := range res {
		acc := res[i].(Accessor)
		orig[i] = acc.Get()
		acc.Set(zzMarker{i: i})
	}
	for p, m := range zzMembers(doc) {
		if _, ok := m.v.(zzMarker); ok {
			sel[p] = true
		}
	}
	for i := range res {
		res[i].(Accessor).Set(orig[i])
	}
	return sel, true
}

func zzH_C09() {
	zzDeclHoles()
	doc := zzDoc("doc")
	zzAssume(zzIsContainer(doc))
	n := len(zzMembers(doc))
	rel := zzParam("rel")
	a, b := zzPath("a"), zzPath("b")
	selA, okA := zzPositions(a, doc, n)
	selB, okB := zzPositions(b, doc, n)
	if !okA || !okB {
		return
	}
	switch rel {
	case "and", "or":
		op := " && "
		if rel == "or" {
			op = " || "
		}
		selC, okC := zzPositions("("+a+")"+op+"("+b+")", doc, n)
		if !okC {
			return
		}
		selD, okD := zzPositions(a+op+b, doc, n) // without parentheses (atoms only)
		for i := 0; i < n; i++ {
			want := selA[i] && selB[i]
			if rel == "or" {
				want = selA[i] || selB[i]
			}
			zzAssert(selC[i] == want, "logic-"+rel)
			if okD && zzParam("atoms") == "1" {
				zzAssert(selD[i] == want, "logic-"+rel+"-unparenthesised")
			}
		}
	case "complement":
		// b is the negation of a (`!p` vs `p`, `x != y` vs `x == y`)
		for i := 0; i < n; i++ {
			zzAssert(selA[i] != selB[i], "complement")
		}
	case "same":
		// b is a with swapped operands and mirrored operator
		for i := 0; i < n; i++ {
			zzAssert(selA[i] == selB[i], "mirror")
		}
	case "le":
		// a: x <= lit (or >=); b: x < lit (or >); c: x == lit
		selC, okC := zzPositions(zzPath("c"), doc, n)
		if !okC {
			return
		}
		for i := 0; i < n; i++ {
			zzAssert(selA[i] == (selB[i] || selC[i]), "le-is-lt-or-eq")
		}
	}
	zzAssert(zzDocUnchanged(), "members-restored")
}

// ---- C12: accessor mode changes only the wrapping ----

func zzH_C12() {
	zzDeclHoles()
	path := zzPath("path")
	plain := Config{}
	zzAddFuncs(&plain)
	acc := Config{}
	zzAddFuncs(&acc)
	acc.SetAccessorMode()
	fP := zzMustParse(path, []Config{plain}, "corpus-path-parses")
	fA := zzMustParse(path, []Config{acc}, "corpus-path-parses")
	if fP == nil || fA == nil {
		return
	}
	doc := zzDoc("doc")
	zzCallLog = nil
	rp, ep, pp := zzTry(fP, doc)
	logP := zzCallLog
	zzCallLog = nil
	ra, ea, pa := zzTry(fA, doc)
	logA := zzCallLog
	zzAssert(pp == nil && pa == nil, "no-panic")
	if pp != nil || pa != nil {
		return
	}
	zzOut("plain", rp)
	zzOut("perr", ep)
	zzOut("aerr", ea)
	zzAssert((ep == nil) == (ea == nil), "same-outcome")
	if ep != nil && ea != nil {
		zzAssert(zzErrKind(ep) == zzErrKind(ea) && ep.Error() == ea.Error(), "same-error")
	}
	if ep == nil && ea == nil {
		zzAssert(len(rp) == len(ra), "same-count")
		if len(rp) == len(ra) {
			for i := range rp {
				a, ok := ra[i].(Accessor)
				zzAssert(ok, "result-is-accessor")
				if ok {
					zzAssert(zzSame(a.Get(), rp[i]), "get-equals-plain-value")
				}
				_, plainIsAcc := rp[i].(Accessor)
				zzAssert(!plainIsAcc, "plain-result-is-not-accessor")
			}
		}
	}
	zzAssert(len(logP) == len(logA), "same-function-calls")
	if len(logP) == len(logA) {
		for i := range logP {
			zzAssert(logP[i].fn == logA[i].fn && zzSameArgs(logP[i].args, logA[i].args), "same-function-arguments")
		}
	}
	for _, c := range logA {
		for _, v := range c.args {
			_, isAcc := v.(Accessor)
			zzAssert(!isAcc, "function-never-sees-accessor")
		}
	}
}

// ---- C13: Set writes exactly the selected location; Get is live ----

type zzSentinel struct{ n int }

func zzH_C13() {
	zzDeclHoles()
	path := zzPath("path")
	acc := Config{}
	zzAddFuncs(&acc)
	acc.SetAccessorMode()
	fA := zzMustParse(path, []Config{acc}, "corpus-path-parses")
	if fA == nil {
		return
	}
	doc := zzDoc("doc")
	ra, ea, pa := zzTry(fA, doc)
	zzAssert(pa == nil, "no-panic")
	if pa != nil || ea != nil {
		return
	}
	ast := zzParseSexp(zzParam("ast"))
	_, want := zzEval(ast, doc)
	zzAssert(len(want) == len(ra), "result-count")
	if len(want) != len(ra) {
		return
	}
	i := zzIntRange("i", 0, len(ra)-1)
	a, ok := ra[i].(Accessor)
	zzAssert(ok, "result-is-accessor")
	if !ok {
		return
	}
	w := want[i]
	isLoc := w.loc == 1 || w.loc == 2
	zzAssert((a.Set != nil) == isLoc, "set-nil-iff-not-a-location")
	if a.Set == nil || !isLoc {
		return
	}
	before := a.Get()
	zzAssert(zzSame(before, w.v), "get-before-set")
	a.Set(zzSentinel{n: 1})
	// exactly the predicted location changed
	if w.loc == 1 {
		_, hit := w.m[w.k].(zzSentinel)
		zzAssert(hit, "set-hits-predicted-location")
		w.m[w.k] = before
	} else {
		_, hit := w.l[w.i].(zzSentinel)
		zzAssert(hit, "set-hits-predicted-location")
		w.l[w.i] = before
	}
	zzAssert(zzDocUnchanged(), "set-changed-nothing-else")
	// Get is live: it follows Set and direct updates of the location
	a.Set(zzSentinel{n: 2})
	g, isS := a.Get().(zzSentinel)
	zzAssert(isS && g.n == 2, "get-after-set")
	if w.loc == 1 {
		w.m[w.k] = zzSentinel{n: 3}
	} else {
		w.l[w.i] = zzSentinel{n: 3}
	}
	g, isS = a.Get().(zzSentinel)
	zzAssert(isS && g.n == 3, "get-is-live")
	// writing nil is a write like any other: the location stays and holds nil
	a.Set(nil)
	if w.loc == 1 {
		v, present := w.m[w.k]
		zzAssert(present && v == nil, "set-nil-keeps-the-location")
		w.m[w.k] = before
	} else {
		zzAssert(w.l[w.i] == nil, "set-nil-keeps-the-location")
		w.l[w.i] = before
	}
	zzAssert(zzDocUnchanged(), "set-changed-nothing-else")
	zzAssert(a.Get() == nil || zzSame(a.Get(), before), "get-is-live")
	// a container written over a container (of the same or of the other kind) is a write like any other
	for n, nv := range []interface{}{map[string]interface{}{"zz": 1.0}, []interface{}{1.0, 2.0}} {
		pan := zzTrySet(a, nv)
		zzAssert(pan == nil, "set-accepts-a-container")
		if pan != nil {
			return
		}
		var now interface{}
		if w.loc == 1 {
			now = w.m[w.k]
			w.m[w.k] = before
		} else {
			now = w.l[w.i]
			w.l[w.i] = before
		}
		if n == 0 {
			m, isMap := now.(map[string]interface{})
			zzAssert(isMap && len(m) == 1, "set-hits-predicted-location")
		} else {
			l, isList := now.([]interface{})
			zzAssert(isList && len(l) == 2, "set-hits-predicted-location")
		}
	}
	zzAssert(zzDocUnchanged(), "set-changed-nothing-else")
}

// zzTrySet calls an accessor's Set and converts a panic into a value.
func zzTrySet(a Accessor, v interface{}) (pan interface{}) {
	defer func() {
		if r := recover(); r != nil {
			pan = r
		}
	}()
	a.Set(v)
	return nil
}

// ---- C18: equivalent spellings ----

func zzH_C18() {
	zzDeclHoles()
	cfg := zzConfig()
	// optional symbolic bytes at the same logical place of both spellings
	p1text := zzHoleBytes(zzPath("path"), zzParam("holepos"), "h")
	p2text := zzHoleBytes(zzPath("alt"), zzParam("altpos"), "h")
	if zzParam("holepos") != "" {
		// the free byte is an ordinary character of a quoted name: not a quote, not a backslash
		b := zzByte("h[" + zzParam("holepos") + "]")
		zzAssume(b != '\'' && b != '"' && b != '\\')
	}
	f1, e1, p1 := zzTryParse(p1text, cfg)
	f2, e2, p2 := zzTryParse(p2text, cfg)
	zzAssert(p1 == nil && p2 == nil, "no-panic")
	if p1 != nil || p2 != nil {
		return
	}
	zzAssert((e1 == nil) == (e2 == nil), "both-parse-or-both-fail")
	if e1 != nil || e2 != nil {
		if e1 != nil && e2 != nil {
			zzAssert(zzErrKind(e1) == zzErrKind(e2), "same-parse-error-kind")
		}
		return
	}
	doc := zzDoc("doc")
	zzCallLog = nil
	r1, x1, q1 := zzTry(f1, doc)
	zzCallLog = nil
	r2, x2, q2 := zzTry(f2, doc)
	zzAssert(q1 == nil && q2 == nil, "no-panic")
	if q1 != nil || q2 != nil {
		return
	}
	zzOut("r1", r1)
	zzOut("r2", r2)
	zzAssert((x1 == nil) == (x2 == nil), "same-outcome")
	if x1 == nil && x2 == nil {
		zzAssert(zzSameSeq(r1, r2), "same-values")
	}
	if x1 != nil && x2 != nil {
		zzAssert(zzErrKind(x1) == zzErrKind(x2), "same-error-kind")
		zzAssert(zzErrStep(x1) == zzErrStep(x2), "same-error-step")
	}
}

// zzErrStep: how many characters of path remain after the failing step (the
// position of the step, independent of its spelling, is its index from the
// end; we use the number of steps that follow it).
func zzErrStep(err error) int {
	var n *syntaxBasicNode
	switch e := err.(type) {
	case ErrorMemberNotExist:
		n = e.node
	case ErrorTypeUnmatched:
		n = e.node
	case ErrorFunctionFailed:
		n = e.node
	}
	c := 0
	for n != nil && n.next != nil {
		c++
		switch x := n.next.(type) {
		case *syntaxChildSingleIdentifier:
			n = x.syntaxBasicNode
		case *syntaxChildMultiIdentifier:
			n = x.syntaxBasicNode
		case *syntaxChildWildcardIdentifier:
			n = x.syntaxBasicNode
		case *syntaxRecursiveChildIdentifier:
			n = x.syntaxBasicNode
		case *syntaxUnionQualifier:
			n = x.syntaxBasicNode
		case *syntaxFilterQualifier:
			n = x.syntaxBasicNode
		case *syntaxFilterFunction:
			n = x.syntaxBasicNode
		case *syntaxAggregateFunction:
			n = x.syntaxBasicNode
		default:
			n = nil
		}
	}
	return c
}

// ---- C10(b): the same document decoded to float64 and to json.Number ----

func zzH_C10_twin() {
	zzDeclHoles()
	doc := zzDoc("doc")
	zzAssume(zzIsContainer(doc))
	twin := zzTwin(doc)
	n := len(zzMembers(doc))
	expr := zzPath("a")
	selF, ok1 := zzPositions(expr, doc, n)
	selN, ok2 := zzPositions(expr, twin, n)
	if !ok1 || !ok2 {
		return
	}
	for i := 0; i < n; i++ {
		zzAssert(selF[i] == selN[i], "decoding-independent")
	}
}

func init() { zzHarnesses["zzH_C10_twin"] = zzH_C10_twin }
