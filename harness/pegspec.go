//go:build verif

package jsonpath

// Side B of the C17 translation validation: an interpreter of the grammar
// file itself (serialised by the host from /repo/jsonpath.peg on every run).
// Standard PEG semantics: ordered choice, greedy repetition, syntactic
// predicates, no memoisation. It produces the trace of text captures and
// actions that survive backtracking, with rune positions.

const (
	zzPSeq = iota
	zzPAlt
	zzPStar
	zzPPlus
	zzPOpt
	zzPNot
	zzPAnd
	zzPLit
	zzPILit
	zzPCls
	zzPAny
	zzPRef
	zzPCap
	zzPAct
)

type zzPeg struct {
	kind  int
	kids  []*zzPeg
	chars []rune // literal
	lo    []rune // class ranges
	hi    []rune
	neg   bool
	name  string
	k     int
	rule  *zzPeg // resolved reference
}

type zzPegEvent struct {
	action     int // -1 for a text capture
	begin, end int
}

type zzPegRun struct {
	buf    []rune
	pos    int
	events []zzPegEvent
	fuel   int
}

func zzPegBuild(n *zzN) *zzPeg {
	p := &zzPeg{}
	switch n.atom {
	case "seq":
		p.kind = zzPSeq
	case "alt":
		p.kind = zzPAlt
	case "star":
		p.kind = zzPStar
	case "plus":
		p.kind = zzPPlus
	case "opt":
		p.kind = zzPOpt
	case "not":
		p.kind = zzPNot
	case "and":
		p.kind = zzPAnd
	case "cap":
		p.kind = zzPCap
	case "any":
		p.kind = zzPAny
		return p
	case "lit", "ilit":
		p.kind = zzPLit
		if n.atom == "ilit" {
			p.kind = zzPILit
		}
		for _, k := range n.kids {
			p.chars = append(p.chars, rune(zzAtoi(k.atom)))
		}
		return p
	case "cls":
		p.kind = zzPCls
		p.neg = n.kids[0].atom == "1"
		for _, r := range n.kids[1:] {
			p.lo = append(p.lo, rune(zzAtoi(r.kids[0].atom)))
			p.hi = append(p.hi, rune(zzAtoi(r.kids[1].atom)))
		}
		return p
	case "ref":
		p.kind = zzPRef
		p.name = n.kids[0].atom
		return p
	case "act":
		p.kind = zzPAct
		p.k = zzAtoi(n.kids[0].atom)
		return p
	default:
		panic("pegspec: unknown node " + n.atom)
	}
	for _, k := range n.kids {
		p.kids = append(p.kids, zzPegBuild(k))
	}
	return p
}

// zzPegLoad builds the grammar: rule name -> expression, references resolved.
func zzPegLoad(text string) map[string]*zzPeg {
	root := zzParseSexp(text)
	rules := map[string]*zzPeg{}
	for _, r := range root.kids {
		rules[r.kids[0].atom] = zzPegBuild(r.kids[1])
	}
	var resolve func(p *zzPeg)
	resolve = func(p *zzPeg) {
		if p.kind == zzPRef {
			p.rule = rules[p.name]
			if p.rule == nil {
				panic("pegspec: undefined rule " + p.name)
			}
			return
		}
		for _, k := range p.kids {
			resolve(k)
		}
	}
	for _, name := range zzPegRuleNames(root) {
		resolve(rules[name])
	}
	return rules
}

func zzPegRuleNames(root *zzN) []string {
	var out []string
	for _, r := range root.kids {
		out = append(out, r.kids[0].atom)
	}
	return out
}

func zzLower(c rune) rune {
	if c >= 'A' && c <= 'Z' {
		return c + 32
	}
	return c
}

func (m *zzPegRun) match(p *zzPeg) bool {
	m.fuel--
	if m.fuel < 0 {
		// the bound of the (memo-less) grammar interpreter is hit: outside the claim, not a verdict
		zzAssume(false)
	}
	switch p.kind {
	case zzPSeq:
		pos, ne := m.pos, len(m.events)
		for _, k := range p.kids {
			if !m.match(k) {
				m.pos, m.events = pos, m.events[:ne]
				return false
			}
		}
		return true
	case zzPAlt:
		for _, k := range p.kids {
			pos, ne := m.pos, len(m.events)
			if m.match(k) {
				return true
			}
			m.pos, m.events = pos, m.events[:ne]
		}
		return false
	case zzPStar:
		for {
			pos, ne := m.pos, len(m.events)
			if !m.match(p.kids[0]) {
				m.pos, m.events = pos, m.events[:ne]
				return true
			}
			if m.pos == pos {
				return true
			}
		}
	case zzPPlus:
		if !m.match(p.kids[0]) {
			return false
		}
		for {
			pos, ne := m.pos, len(m.events)
			if !m.match(p.kids[0]) {
				m.pos, m.events = pos, m.events[:ne]
				return true
			}
			if m.pos == pos {
				return true
			}
		}
	case zzPOpt:
		pos, ne := m.pos, len(m.events)
		if !m.match(p.kids[0]) {
			m.pos, m.events = pos, m.events[:ne]
		}
		return true
	case zzPNot:
		pos, ne := m.pos, len(m.events)
		ok := m.match(p.kids[0])
		m.pos, m.events = pos, m.events[:ne]
		return !ok
	case zzPAnd:
		pos, ne := m.pos, len(m.events)
		ok := m.match(p.kids[0])
		m.pos, m.events = pos, m.events[:ne]
		return ok
	case zzPLit, zzPILit:
		if m.pos+len(p.chars) > len(m.buf) {
			return false
		}
		for i, c := range p.chars {
			b := m.buf[m.pos+i]
			if p.kind == zzPILit {
				if zzLower(b) != zzLower(c) {
					return false
				}
			} else if b != c {
				return false
			}
		}
		m.pos += len(p.chars)
		return true
	case zzPCls:
		if m.pos >= len(m.buf) {
			return false
		}
		c := m.buf[m.pos]
		in := false
		for i := range p.lo {
			if c >= p.lo[i] && c <= p.hi[i] {
				in = true
				break
			}
		}
		if in == p.neg {
			return false
		}
		m.pos++
		return true
	case zzPAny:
		if m.pos >= len(m.buf) {
			return false
		}
		m.pos++
		return true
	case zzPRef:
		return m.match(p.rule)
	case zzPCap:
		begin := m.pos
		if !m.match(p.kids[0]) {
			return false
		}
		m.events = append(m.events, zzPegEvent{action: -1, begin: begin, end: m.pos})
		return true
	case zzPAct:
		m.events = append(m.events, zzPegEvent{action: p.k, begin: m.pos, end: m.pos})
		return true
	}
	panic("pegspec: bad node")
}

// zzH_C17: the generated parser implements the published grammar.
func zzH_C17() {
	zzDeclHoles()
	s := zzSubject()
	rules := zzPegLoad(zzParam("peg"))
	cfg := zzConfig()
	f, err, pan := zzTryParse(s, cfg)
	zzAssert(pan == nil, "no-panic")
	if pan != nil {
		return
	}
	// side A: the trace the generated recogniser left in the token tree
	var ta []zzPegEvent
	for _, t := range parser.Tokens() {
		name := rul3s[t.pegRule]
		switch {
		case name == "PegText":
			ta = append(ta, zzPegEvent{action: -1, begin: int(t.begin), end: int(t.end)})
		case len(name) > 6 && name[:6] == "Action":
			ta = append(ta, zzPegEvent{action: zzAtoi(name[6:]), begin: int(t.begin), end: int(t.end)})
		}
	}
	// side B: the grammar file, interpreted
	runes := []rune(s)
	m := &zzPegRun{buf: runes, fuel: 3000000}
	start := rules[zzParam("start")]
	ok := m.match(start)
	zzAssert(ok, "grammar-start-rule-matches")
	// rulePegText is numbered after Action0 by the generator: in the rule enum order
	// Action0 < PegText < Action1, which the comparison above handles by name.
	zzAssert(len(ta) == len(m.events), "same-trace-length")
	if len(ta) == len(m.events) {
		for i := range ta {
			zzAssert(ta[i].action == m.events[i].action && ta[i].begin == m.events[i].begin && ta[i].end == m.events[i].end, "same-trace")
		}
	}
	// acceptance: the first alternative of `expression` ends with Action0,
	// the catch-all alternative with Action1 (checked against the grammar by the host)
	accepted := len(m.events) > 0 && m.events[len(m.events)-1].action == zzParamInt("accept_action")
	if !accepted {
		// Rejected by the grammar: Parse must fail. The error is the syntax
		// error of the catch-all alternative unless an action of the accepted
		// prefix (`jsonpath?`) fails first with its own documented error.
		es, isSyn := err.(ErrorInvalidSyntax)
		zzAssert(f == nil && err != nil, "rejected-by-grammar-is-an-error")
		if isSyn && es.reason == msgErrorInvalidSyntaxUnrecognizedInput {
			// the catch-all capture <.*> starts where the longest accepted prefix ends
			var capBegin int
			for _, e := range m.events {
				if e.action == -1 {
					capBegin = e.begin
				}
			}
			zzAssert(es.position == capBegin, "error-position-is-end-of-accepted-prefix")
			zzAssert(es.near == string(runes[capBegin:]), "near-is-rest-of-path")
			zzOut("pos", es.position)
		} else if isSyn {
			zzAssert(es.position >= 0 && es.position <= len(runes), "error-position-inside-path")
			if es.position >= 0 && es.position <= len(runes) {
				zzAssert(es.near == string(runes[es.position:]), "near-is-rest-of-path")
			}
		}
	} else {
		// derivable: Parse may still fail, but only with the error of a documented
		// semantic restriction (bad number or regular expression, unknown function,
		// script, value-group or two-@ comparison) - never with anything else
		if err != nil {
			k := zzErrKind(err)
			zzAssert(k == "InvalidSyntax" || k == "InvalidArgument" || k == "FunctionNotFound" || k == "NotSupported", "derivable-path-fails-only-with-a-documented-restriction")
		}
		if es, isSyn := err.(ErrorInvalidSyntax); isSyn {
			zzAssert(es.reason != msgErrorInvalidSyntaxUnrecognizedInput, "accepted-by-grammar-is-not-unrecognized")
			zzAssert(es.position >= 0 && es.position <= len(runes), "error-position-inside-path")
			if es.position >= 0 && es.position <= len(runes) {
				zzAssert(es.near == string(runes[es.position:]), "near-is-rest-of-path")
			}
		}
	}
	if err == nil {
		zzAssert(accepted, "parsed-implies-derivable")
	}
	zzOutStr("kind", zzErrKind(err))
}
