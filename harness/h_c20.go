//go:build verif

package jsonpath

func init() {
	zzHarnesses["zzH_C20"] = zzH_C20
}

type zzOpStruct struct {
	A int
	B string
}
type zzOpUncomparable struct {
	S []int
}
type zzOpNested struct {
	In zzOpUncomparable
}
type zzOpString string
type zzOpMap map[string]int
type zzOpSlice []string

var zzOpTarget = 7

// zzOpNumLike has the method set of json.Number's numeric side without being one.
type zzOpNumLike struct{ v float64 }

func (n zzOpNumLike) Float64() (float64, error) { return n.v, nil }
func (n *zzOpNumLike) Int64() (int64, error)    { return int64(n.v), nil }

var zzOpPointee interface{} = map[string]interface{}{"a": 1.0}

// zzOpaqueProtos builds the non-JSON leaf prototypes: one value per Go type
// family that encoding/json never produces for interface{}.
func zzOpaqueProtos() []interface{} {
	var nilPtr *int
	var nilMap map[string]interface{}
	var nilSlice []interface{}
	return []interface{}{
		zzOpStruct{A: 1, B: "x"},      // 0 comparable struct
		struct{}{},                    // 1 empty struct
		&zzOpTarget,                   // 2 pointer
		nilPtr,                        // 3 typed nil pointer
		zzOpMap{"a": 1},               // 4 typed map
		zzOpSlice{"a"},                // 5 typed slice
		[2]int{1, 2},                  // 6 array
		int(3),                        // 7 int
		int64(4),                      // 8 int64
		uint8(5),                      // 9 uint8
		float32(1.5),                  // 10 float32
		complex(1, 2),                 // 11 complex128
		func() {},                     // 12 func
		make(chan int),                // 13 chan
		zzOpString("s"),               // 14 named string
		[]byte("ab"),                  // 15 []byte
		zzOpUncomparable{S: []int{1}}, // 16 uncomparable struct
		zzOpNested{},                  // 17 nested uncomparable struct
		nilMap,                        // 18 nil map[string]interface{} (typed nil of a JSON container type)
		nilSlice,                      // 19 nil []interface{}
		map[string]string{"a": "b"},   // 20 map[string]string
		[]int{1},                      // 21 []int
		zzOpNumLike{v: 2},             // 22 a type with a Float64() (float64, error) method
		(*zzOpNumLike)(nil),           // 23 typed nil pointer whose type has number-like methods
		&zzOpPointee,                  // 24 *interface{} pointing at a JSON object (what callers hand to json.Unmarshal)
	}
}

// zzH_C20: documents whose leaves may be any of the non-JSON prototypes.
func zzH_C20() {
	zzOpaqueInit(zzOpaqueProtos())
	zzDeclHoles()
	path := zzPath("path")
	cfg := zzConfig()
	f, perr, ppan := zzTryParse(path, cfg)
	zzAssert(ppan == nil && perr == nil && f != nil, "corpus-path-parses")
	if ppan != nil || perr != nil || f == nil {
		return
	}
	doc := zzDoc("doc")
	zzCallLog = nil
	got, err, pan := zzTry(f, doc)
	zzAssert(pan == nil, "no-panic")
	if pan != nil {
		zzOut("panic", "yes")
		return
	}
	zzOut("got", got)
	zzOut("err", err)
	kind := zzErrKind(err)
	if err == nil {
		zzAssert(len(got) > 0, "success-is-nonempty")
	} else {
		zzAssert(got == nil, "error-has-nil-result")
		zzAssert(kind == "MemberNotExist" || kind == "TypeUnmatched" || kind == "FunctionFailed", "documented-runtime-error")
		if tu, ok := err.(ErrorTypeUnmatched); ok {
			zzOutStr("found", tu.foundType)
		}
	}
	ast := zzParseSexp(zzParam("ast"))
	_, want := zzEval(ast, doc)
	zzAssert((err == nil) == (len(want) > 0), "fails-iff-spec-selects-nothing")
	if err == nil && len(want) > 0 {
		zzAssert(len(got) == len(want), "result-count")
		if len(got) == len(want) {
			for i := range got {
				zzAssert(zzSame(got[i], want[i].v), "result-value")
			}
		}
	}
}
