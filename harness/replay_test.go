//go:build verif

package jsonpath

import (
	"bufio"
	"encoding/json"
	"fmt"
	"os"
	"strconv"
	"testing"
	"time"
)

func zzReplayDeadline() time.Duration {
	if s, err := strconv.Atoi(os.Getenv("VERIF_REPLAY_DEADLINE_S")); err == nil && s > 0 {
		return time.Duration(s) * time.Second
	}
	return 45 * time.Second
}

type zzReplayResult struct {
	Job      string            `json:"job"`
	Harness  string            `json:"harness"`
	Failed   []string          `json:"failed"`
	Out      map[string]string `json:"out"`
	Panicked bool              `json:"panicked"`
	PanicMsg string            `json:"panic_msg,omitempty"`
	Skipped  bool              `json:"skipped"`
	Index    int               `json:"index"`
}

func zzRunOne(fx *zzFixture) (res zzReplayResult) {
	res.Job, res.Harness = fx.Job, fx.Harness
	zzReset(fx)
	defer func() {
		if r := recover(); r != nil {
			if _, ok := r.(zzSkip); ok {
				res.Skipped = true
			} else {
				res.Panicked = true
				res.PanicMsg = fmt.Sprint(r)
			}
		}
		res.Failed = zzFailed
		res.Out = zzOutMap
	}()
	h, ok := zzHarnesses[fx.Harness]
	if !ok {
		panic("unknown harness " + fx.Harness)
	}
	// watchdog: a harness that does not come back (unbounded loop in the code under test)
	// ends the process; the driver records the fixture as crashed and resumes after it
	done := make(chan struct{})
	go func() {
		select {
		case <-done:
		case <-time.After(zzReplayDeadline()):
			fmt.Fprintln(os.Stderr, "ZZ-TIMEOUT: fixture did not finish within the deadline:", fx.Job)
			os.Exit(3)
		}
	}()
	defer close(done)
	h()
	return
}

// TestZZReplay runs every fixture of $VERIF_FIXTURES (JSON lines) against the
// real build and writes one result line per fixture to $VERIF_RESULTS.
func TestZZReplay(t *testing.T) {
	in, err := os.Open(os.Getenv("VERIF_FIXTURES"))
	if err != nil {
		t.Skip("no fixtures")
	}
	defer in.Close()
	out, err := os.Create(os.Getenv("VERIF_RESULTS"))
	if err != nil {
		t.Fatal(err)
	}
	defer out.Close()
	w := bufio.NewWriter(out)
	defer w.Flush()
	sc := bufio.NewScanner(in)
	sc.Buffer(make([]byte, 1<<20), 1<<26)
	idx := 0
	for sc.Scan() {
		var fx zzFixture
		if err := json.Unmarshal(sc.Bytes(), &fx); err != nil {
			t.Fatalf("fixture %d: %v", idx, err)
		}
		res := zzRunOne(&fx)
		res.Index = idx
		b, _ := json.Marshal(res)
		w.Write(b)
		w.WriteByte('\n')
		w.Flush()
		idx++
	}
}

// TestZZFreshOutcome prints the outcome of one Parse call made first in this
// (fresh) process; used by zzFreshOutcome.
func TestZZFreshOutcome(t *testing.T) {
	p, ok := os.LookupEnv("ZZ_FRESH_PATH")
	if !ok {
		t.Skip("not a fresh-outcome run")
	}
	zzReset(&zzFixture{})
	fmt.Printf("ZZOUT:%q\n", zzParseOutcome(p, os.Getenv("ZZ_FRESH_CFG")))
}
