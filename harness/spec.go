//go:build verif

package jsonpath

import (
	"encoding/json"
	"regexp"
)

// The reference semantics (DESIGN.md Appendix B): an evaluator written from
// the property statements, structurally unlike the implementation. It works on
// an s-expression AST emitted by the corpus generator next to the path text,
// keeps an explicit node list per step and treats a filter as a Boolean
// function of (root, member).

type zzN struct {
	atom string
	kids []*zzN
}

func zzParseSexp(s string) *zzN {
	pos := 0
	return zzParseSexpAt(s, &pos)
}

func zzParseSexpAt(s string, pos *int) *zzN {
	for *pos < len(s) && s[*pos] == ' ' {
		*pos++
	}
	if *pos >= len(s) {
		return nil
	}
	if s[*pos] == '(' {
		*pos++
		n := &zzN{}
		first := true
		for {
			for *pos < len(s) && s[*pos] == ' ' {
				*pos++
			}
			if *pos >= len(s) {
				return n
			}
			if s[*pos] == ')' {
				*pos++
				return n
			}
			k := zzParseSexpAt(s, pos)
			if first && len(k.kids) == 0 {
				n.atom = k.atom
			} else {
				n.kids = append(n.kids, k)
			}
			first = false
		}
	}
	start := *pos
	if s[*pos] == '"' {
		// quoted atom: "..." with \" and \\ escapes
		*pos++
		var b []byte
		for *pos < len(s) && s[*pos] != '"' {
			if s[*pos] == '\\' && *pos+1 < len(s) {
				*pos++
			}
			b = append(b, s[*pos])
			*pos++
		}
		*pos++
		return &zzN{atom: string(b)}
	}
	for *pos < len(s) && s[*pos] != ' ' && s[*pos] != '(' && s[*pos] != ')' {
		*pos++
	}
	return &zzN{atom: s[start:*pos]}
}

func zzAtoi(s string) int {
	neg := false
	i := 0
	if len(s) > 0 && (s[0] == '-' || s[0] == '+') {
		neg = s[0] == '-'
		i = 1
	}
	n := 0
	for ; i < len(s); i++ {
		n = n*10 + int(s[i]-'0')
	}
	if neg {
		return -n
	}
	return n
}

// zzNode is a selected value together with the document location it came from.
type zzNode struct {
	v   interface{}
	loc int // 0 none (function output), 1 member of m at k, 2 element of l at i, 3 the root itself
	m   map[string]interface{}
	k   string
	l   []interface{}
	i   int
}

// zzSpec is the evaluation context of one reference run.
type zzSpec struct {
	root      interface{}
	calls     []zzCall // user-function call log (outside filters)
	fcalls    []zzCall // calls made while evaluating filter operands
	fnFailed  bool     // some user function returned an error
	failedFns []string
	inFilter  int
	multi     bool // the path so far contains a multi-valued step since the last aggregate
}

func zzIsContainer(v interface{}) bool {
	switch v.(type) {
	case map[string]interface{}, []interface{}:
		return true
	}
	return false
}

func zzMembers(v interface{}) []zzNode {
	var out []zzNode
	switch c := v.(type) {
	case map[string]interface{}:
		for _, k := range zzSortedKeys(c) {
			out = append(out, zzNode{v: c[k], loc: 1, m: c, k: k})
		}
	case []interface{}:
		for i := range c {
			out = append(out, zzNode{v: c[i], loc: 2, l: c, i: i})
		}
	}
	return out
}

// zzPreorder lists the containers reachable from v (v included), pre-order.
func zzPreorder(v interface{}, out []interface{}) []interface{} {
	if !zzIsContainer(v) {
		return out
	}
	out = append(out, v)
	for _, m := range zzMembers(v) {
		out = zzPreorder(m.v, out)
	}
	return out
}

func (sp *zzSpec) intOf(n *zzN) int {
	if n.atom == "ih" {
		return zzInt(n.kids[0].atom)
	}
	return zzAtoi(n.kids[0].atom)
}

// subscript returns the indices selected by one union subscript on length n.
func (sp *zzSpec) subscript(s *zzN, n int) []int {
	switch s.atom {
	case "i", "ih":
		idx := sp.intOf(s)
		if idx >= 0 && idx < n {
			return []int{idx}
		}
		if idx < 0 && idx >= -n {
			return []int{idx + n}
		}
		return nil
	case "*":
		out := make([]int, n)
		for i := range out {
			out[i] = i
		}
		return out
	case "s":
		var v [3]int
		var has [3]bool
		for j := 0; j < 3 && j < len(s.kids); j++ {
			if s.kids[j].atom != "_" {
				has[j] = true
				if s.kids[j].atom == "h" {
					v[j] = zzInt(s.kids[j].kids[0].atom)
				} else {
					v[j] = zzAtoi(s.kids[j].atom)
				}
			}
		}
		return zzPySlice(v[0], has[0], v[1], has[1], v[2], has[2], n)
	}
	panic("spec: unknown subscript " + s.atom)
}

func zzStepIsMulti(step *zzN) bool {
	switch step.atom {
	case "name", "func", "agg":
		return false
	case "union":
		if len(step.kids) == 1 && (step.kids[0].atom == "i" || step.kids[0].atom == "ih") {
			return false
		}
		return true
	}
	return true
}

func (sp *zzSpec) selectName(n zzNode, k string, out []zzNode) []zzNode {
	if m, ok := n.v.(map[string]interface{}); ok {
		if v, ok := m[k]; ok {
			out = append(out, zzNode{v: v, loc: 1, m: m, k: k})
		}
	}
	return out
}

func (sp *zzSpec) applyStep(step *zzN, in []zzNode) []zzNode {
	var out []zzNode
	switch step.atom {
	case "name":
		for _, n := range in {
			out = sp.selectName(n, step.kids[0].atom, out)
		}
	case "multi":
		allWild := true
		for _, s := range step.kids {
			if s.atom != "*" {
				allWild = false
			}
		}
		for _, n := range in {
			switch c := n.v.(type) {
			case map[string]interface{}:
				for _, s := range step.kids {
					if s.atom == "*" {
						out = append(out, zzMembers(c)...)
					} else {
						out = sp.selectName(n, s.kids[0].atom, out)
					}
				}
			case []interface{}:
				if allWild {
					for range step.kids {
						out = append(out, zzMembers(c)...)
					}
				}
			}
		}
	case "wild":
		for _, n := range in {
			out = append(out, zzMembers(n.v)...)
		}
	case "union":
		for _, n := range in {
			if l, ok := n.v.([]interface{}); ok {
				for _, s := range step.kids {
					for _, idx := range sp.subscript(s, len(l)) {
						out = append(out, zzNode{v: l[idx], loc: 2, l: l, i: idx})
					}
				}
			}
		}
	case "desc":
		x := step.kids[0]
		for _, n := range in {
			for _, c := range zzPreorder(n.v, nil) {
				_, isMap := c.(map[string]interface{})
				switch x.atom {
				case "name":
					if !isMap {
						continue
					}
				case "union":
					if isMap {
						continue
					}
				}
				out = append(out, sp.applyStep(x, []zzNode{{v: c}})...)
			}
		}
	case "filter":
		for _, n := range in {
			for _, m := range zzMembers(n.v) {
				sp.inFilter++
				keep := sp.holds(step.kids[0], m.v)
				sp.inFilter--
				if keep {
					out = append(out, m)
				}
			}
		}
	case "func":
		name := step.kids[0].atom
		for _, n := range in {
			if sp.inFilter == 0 {
				sp.calls = append(sp.calls, zzCall{fn: name, args: []interface{}{n.v}})
			} else {
				sp.fcalls = append(sp.fcalls, zzCall{fn: name, args: []interface{}{n.v}})
			}
			fails := name == "fail" || name == "failrt"
			if name == "failnum" {
				_, fails = n.v.(float64)
			}
			if fails {
				sp.fnFailed = true
				sp.failedFns = append(sp.failedFns, name)
				continue
			}
			out = append(out, zzNode{v: zzWrapped{fn: name, arg: n.v}})
		}
	case "agg":
		name := step.kids[0].atom
		if len(in) == 0 {
			return nil
		}
		vals := make([]interface{}, len(in))
		for i, n := range in {
			vals[i] = n.v
		}
		if !sp.multi && len(in) == 1 {
			if l, ok := in[0].v.([]interface{}); ok {
				vals = make([]interface{}, len(l))
				copy(vals, l)
			}
		}
		if sp.inFilter == 0 {
			sp.calls = append(sp.calls, zzCall{fn: name, args: vals, agg: true})
		} else {
			sp.fcalls = append(sp.fcalls, zzCall{fn: name, args: vals, agg: true})
		}
		if name == "aggfail" {
			sp.fnFailed = true
			sp.failedFns = append(sp.failedFns, name)
			return nil
		}
		if name == "aggid" {
			out = append(out, zzNode{v: vals})
			break
		}
		if name == "cnt" {
			out = append(out, zzNode{v: float64(len(vals))})
			break
		}
		out = append(out, zzNode{v: zzWrappedAgg{fn: name, args: vals}})
	default:
		panic("spec: unknown step " + step.atom)
	}
	return out
}

// evalSteps applies steps to the start node list.
func (sp *zzSpec) evalSteps(steps []*zzN, start []zzNode) []zzNode {
	nodes := start
	savedMulti := sp.multi
	sp.multi = false
	for _, st := range steps {
		if st.atom == "agg" {
			nodes = sp.applyStep(st, nodes)
			sp.multi = false
			continue
		}
		nodes = sp.applyStep(st, nodes)
		if zzStepIsMulti(st) {
			sp.multi = true
		}
	}
	sp.multi = savedMulti
	return nodes
}

// operand evaluates a comparison operand: (present, value).
func (sp *zzSpec) operand(o *zzN, member interface{}) (bool, interface{}) {
	switch o.atom {
	case "num":
		f, _ := json.Number(o.kids[0].atom).Float64()
		return true, f
	case "numh":
		return true, zzFloat(o.kids[0].atom)
	case "str":
		return true, o.kids[0].atom
	case "bool":
		return true, o.kids[0].atom == "true"
	case "null":
		return true, nil
	case "cur":
		r := sp.evalSteps(o.kids, []zzNode{{v: member}})
		if len(r) == 0 {
			return false, nil
		}
		return true, r[0].v
	case "root":
		r := sp.evalSteps(o.kids, []zzNode{{v: sp.root, loc: 3}})
		if len(r) == 0 {
			return false, nil
		}
		return true, r[0].v
	}
	panic("spec: unknown operand " + o.atom)
}

func zzIsLiteralOperand(o *zzN) bool {
	switch o.atom {
	case "num", "numh", "str", "bool", "null":
		return true
	}
	return false
}

func zzIsNumber(v interface{}) bool {
	switch v.(type) {
	case float64, json.Number:
		return true
	}
	return false
}

// zzLiteralEq: typed equality between a literal and a document value.
func zzLiteralEq(lit interface{}, present bool, v interface{}) bool {
	if !present {
		return false
	}
	switch l := lit.(type) {
	case nil:
		return v == nil
	case bool:
		b, ok := v.(bool)
		return ok && b == l
	case string:
		s, ok := v.(string)
		return ok && zzStrEq(s, l)
	case float64:
		if !zzIsNumber(v) {
			return false
		}
		return zzFloatEq(zzNumValue(v), l)
	}
	return false
}

// holds evaluates a filter expression for one member.
func (sp *zzSpec) holds(q *zzN, member interface{}) bool {
	switch q.atom {
	case "and":
		a := sp.holds(q.kids[0], member)
		b := sp.holds(q.kids[1], member)
		return a && b
	case "or":
		a := sp.holds(q.kids[0], member)
		b := sp.holds(q.kids[1], member)
		return a || b
	case "not":
		return !sp.holds(q.kids[0], member)
	case "exists":
		ok, _ := sp.operand(q.kids[0], member)
		return ok
	case "regex":
		ok, v := sp.operand(q.kids[0], member)
		if !ok {
			return false
		}
		s, isStr := v.(string)
		if !isStr {
			return false
		}
		return zzRegexMatch(regexp.MustCompile(q.kids[1].atom), s)
	case "cmp":
		op := q.kids[0].atom
		lo, ro := q.kids[1], q.kids[2]
		lok, lv := sp.operand(lo, member)
		rok, rv := sp.operand(ro, member)
		switch op {
		case "==", "!=":
			var eq bool
			switch {
			case zzIsLiteralOperand(lo) && zzIsLiteralOperand(ro):
				eq = zzLiteralEq(lv, true, rv) && zzLiteralEq(rv, true, lv)
			case zzIsLiteralOperand(ro):
				eq = zzLiteralEq(rv, lok, lv)
			case zzIsLiteralOperand(lo):
				eq = zzLiteralEq(lv, rok, rv)
			default:
				if !lok && !rok {
					eq = true
				} else if lok && rok {
					eq = zzDeepEqual(lv, rv)
				}
			}
			if op == "!=" {
				return !eq
			}
			return eq
		default:
			if !lok || !rok || !zzIsNumber(lv) || !zzIsNumber(rv) {
				return false
			}
			a, b := zzNumValue(lv), zzNumValue(rv)
			switch op {
			case "<":
				return a < b
			case "<=":
				return a <= b
			case ">":
				return a > b
			case ">=":
				return a >= b
			}
		}
	}
	panic("spec: unknown query " + q.atom)
}

// zzEval runs the reference semantics for (path AST, document).
func zzEval(ast *zzN, doc interface{}) (*zzSpec, []zzNode) {
	sp := &zzSpec{root: doc}
	nodes := sp.evalSteps(ast.kids, []zzNode{{v: doc, loc: 3}})
	return sp, nodes
}
