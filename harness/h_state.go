//go:build verif

package jsonpath

import "sort"

func init() {
	zzHarnesses["zzH_C07_keys"] = zzH_C07_keys
	zzHarnesses["zzH_C05"] = zzH_C05
	zzHarnesses["zzH_C06_eval"] = zzH_C06_eval
	zzHarnesses["zzH_C06_parse"] = zzH_C06_parse
	zzHarnesses["zzH_C19"] = zzH_C19
	zzHarnesses["zzH_C19_spec"] = zzH_C19_spec
}

var zzC07Alphabet = []string{"", "a", "B", "ab", "aa", "é", "z"}

// zzH_C07_keys: getSortedKeys returns the keys in ascending byte-wise order
// for every key subset, every map iteration order and a dirty pooled slice.
func zzH_C07_keys() {
	mask := zzIntRange("mask", zzParamInt("minmask"), zzParamInt("maxmask"))
	size := 0
	for i := range zzC07Alphabet {
		if mask&(1<<uint(i)) != 0 {
			size++
		}
	}
	zzAssume(size <= zzParamInt("maxsize"))
	reps := zzRepeat()
	for rep := 0; rep < reps; rep++ {
		// dirty the pool with a slice of another capacity holding stale keys
		dirty := zzIntRange("dirty", 0, 3)
		if dirty > 0 {
			junk := make(sort.StringSlice, dirty*2)
			for i := range junk {
				junk[i] = "stale"
			}
			putSortSlice(&junk)
		}
		m := map[string]interface{}{}
		var want []string
		// insertion order is varied natively; in the engine the iteration order is an explicit choice
		for i := len(zzC07Alphabet) - 1; i >= 0; i-- {
			if mask&(1<<uint(i)) != 0 {
				m[zzC07Alphabet[(i+rep)%len(zzC07Alphabet)]] = i
			}
		}
		want = zzSortedKeys(m)
		sk := getSortedKeys(m)
		got := []string(*sk)
		zzAssert(len(got) == len(want), "sorted-keys-length")
		if len(got) == len(want) {
			for i := range got {
				zzAssert(got[i] == want[i], "sorted-keys-order")
			}
		}
		// a nested use while the first slice is still held must not disturb it
		inner := getSortedKeys(map[string]interface{}{"y": 1, "x": 2})
		zzAssert(len(*inner) == 2 && (*inner)[0] == "x" && (*inner)[1] == "y", "nested-sorted-keys")
		putSortSlice(inner)
		if len(got) == len(want) {
			for i := range got {
				zzAssert((*sk)[i] == want[i], "outer-slice-undisturbed")
			}
		}
		putSortSlice(sk)
	}
}

// ---- C05: a parsed function is pure ----

func zzH_C05() {
	zzDeclHoles()
	path := zzPath("path")
	cfg := zzConfig()
	f := zzMustParse(path, cfg, "corpus-path-parses")
	if f == nil {
		return
	}
	zzTreeMark(f)
	zzGlobalsMark()
	n := zzParamInt("history")
	var results [][]interface{}
	var snaps [][]interface{}
	var errs []error
	mutate := zzParam("mutate") == "1"
	for i := 0; i < n; i++ {
		docName := "doc" + string(rune('1'+i))
		if mutate {
			docName = "doc1" // the same document object every time, updated in place between calls
		}
		doc := zzInputDoc(docName)
		if mutate && i > 0 {
			zzMutateInPlace(doc)
		}
		if zzParam("recycle") == "1" {
			// an unrelated retrieval that recycles the pooled buffers
			Retrieve(`$..*`, map[string]interface{}{"k": []interface{}{1.0, map[string]interface{}{"z": 2.0}}, "j": 3.0})
		}
		ep := zzEpoch()
		got, err, pan := zzTry(f, doc)
		_, boom := pan.(zzBoom) // the user function's own panic, recovered by the caller: a failed call
		zzAssert(pan == nil || boom, "no-panic")
		if pan != nil && !boom {
			return
		}
		zzAssert(zzTreeUnchanged(), "parsed-tree-unchanged")
		zzAssert(zzGlobalsUnchanged(), "package-constants-unchanged")
		zzAssert(zzPoisonClean(), "no-use-of-recycled-buffer")
		zzAssert(zzFresh(got, ep), "result-slice-is-fresh")
		// same outcome as a fresh Retrieve of the same path on this document
		fresh, ferr, fpan := zzTryRetrieve(path, doc, cfg)
		_, fboom := fpan.(zzBoom)
		zzAssert(fpan == nil || fboom, "no-panic")
		if fpan != nil && !fboom {
			return
		}
		zzAssert(boom == fboom, "same-outcome-as-fresh-retrieve")
		if boom || fboom {
			results = append(results, nil)
			snaps = append(snaps, nil)
			errs = append(errs, nil)
			continue
		}
		zzAssert((err == nil) == (ferr == nil), "same-outcome-as-fresh-retrieve")
		if err == nil && ferr == nil {
			zzAssert(zzSameSeq(got, fresh), "same-values-as-fresh-retrieve")
		}
		if err != nil && ferr != nil {
			zzAssert(zzErrKind(err) == zzErrKind(ferr) && err.Error() == ferr.Error(), "same-error-as-fresh-retrieve")
		}
		if !mutate {
			// (outputs are rendered at the end of the path: not meaningful for documents updated in place)
			zzOut("got"+string(rune('1'+i)), got)
			zzOut("err"+string(rune('1'+i)), err)
		}
		results = append(results, got)
		// a snapshot that also copies nested slices that are not part of the
		// input document (a value built by a user function, or library memory)
		cp := make([]interface{}, len(got))
		for k := range got {
			cp[k] = zzSnap(got[k])
		}
		snaps = append(snaps, cp)
		errs = append(errs, err)
		// the caller owns earlier results: scribbling over one must not affect later calls
		if zzParam("scribble") == "1" && len(got) > 0 {
			got[0] = zzSentinel{n: 99}
			snaps[i][0] = zzSentinel{n: 99}
		}
	}
	// earlier results are unchanged by later calls
	for i := range results {
		zzAssert(len(results[i]) == len(snaps[i]), "earlier-result-unchanged")
		if len(results[i]) == len(snaps[i]) {
			for k := range results[i] {
				zzAssert(zzSame(results[i][k], snaps[i][k]), "earlier-result-unchanged")
			}
		}
	}
	if !mutate {
		zzAssert(zzDocUnchanged(), "document-unchanged")
	}
}

// zzMutateInPlace changes a document without changing its shape or the
// identity of its containers: members of every object/array with two or more
// members are rotated, one level deep and at the root.
func zzMutateInPlace(doc interface{}) {
	rot := func(v interface{}) {
		switch c := v.(type) {
		case map[string]interface{}:
			keys := zzSortedKeys(c)
			if len(keys) >= 2 {
				first := c[keys[0]]
				for i := 0; i+1 < len(keys); i++ {
					c[keys[i]] = c[keys[i+1]]
				}
				c[keys[len(keys)-1]] = first
			}
		case []interface{}:
			if len(c) >= 2 {
				first := c[0]
				copy(c, c[1:])
				c[len(c)-1] = first
			}
		}
	}
	for _, m := range zzMembers(doc) {
		rot(m.v)
	}
	rot(doc)
}

func zzTryRetrieve(path string, doc interface{}, cfg []Config) (res []interface{}, err error, pan interface{}) {
	defer func() {
		if r := recover(); r != nil {
			pan = r
			res, err = nil, nil
		}
	}()
	res, err = Retrieve(path, doc, cfg...)
	return
}

// ---- C06: conflict freedom (sufficient condition for race freedom) ----

// zzH_C06_eval: while a parsed function runs it writes no object that existed
// before the call except buffers it owns through sync.Pool.Get, and it does
// not touch the global parser.
func zzH_C06_eval() {
	zzDeclHoles()
	path := zzPath("path")
	cfg := zzConfig()
	f := zzMustParse(path, cfg, "corpus-path-parses")
	if f == nil {
		return
	}
	doc := zzInputDoc("doc")
	// warm the pools so that reuse of pooled buffers is exercised
	Retrieve(`$..*`, map[string]interface{}{"k": []interface{}{1.0}, "j": 3.0})
	zzAccessStart()
	_, _, pan := zzTry(f, doc)
	ok := zzAccessCheck()
	zzAssert(pan == nil, "no-panic")
	zzAssert(ok, "evaluation-writes-only-owned-memory")
	zzAssert(zzPoisonClean(), "no-use-of-recycled-buffer")
	zzAssert(zzMutexFree(), "mutex-free")
}

// zzH_C06_parse: Parse writes shared state only while holding the mutex and
// releases it on every exit.
func zzH_C06_parse() {
	zzDeclHoles()
	path := zzPath("path")
	cfg := zzConfig()
	zzAccessStart()
	f, err, pan := zzTryParse(path, cfg)
	ok := zzAccessCheck()
	zzAssert(pan == nil, "no-panic")
	zzAssert(ok, "parse-writes-shared-state-only-under-mutex")
	zzAssert(zzMutexFree(), "mutex-free")
	zzAssert(zzParserClean(), "parser-state-reset")
	if err == nil && f != nil {
		zzAssert(zzIsolated(f), "parsed-function-shares-no-mutable-state")
	}
}

// ---- C19: Parse depends only on the path and the Config ----

func zzCfgNamed(name string) []Config {
	switch name {
	case "funcs":
		c := Config{}
		zzAddFuncs(&c)
		return []Config{c}
	case "funcs2":
		// same names, different functions
		c := Config{}
		c.SetFilterFunction("f", func(v interface{}) (interface{}, error) { return zzWrapped{fn: "other-f", arg: v}, nil })
		c.SetAggregateFunction("agg", func(v []interface{}) (interface{}, error) { return zzWrapped{fn: "other-agg", arg: nil}, nil })
		return []Config{c}
	case "accessor":
		c := Config{}
		c.SetAccessorMode()
		return []Config{c}
	case "funcs+accessor":
		c := Config{}
		zzAddFuncs(&c)
		c.SetAccessorMode()
		return []Config{c}
	case "empty":
		return []Config{{}}
	case "shared":
		// one Config object used by several calls of the same run
		return []Config{*zzShared()}
	case "shared+extra":
		// the shared Config first, another one after it (only the first counts)
		e := Config{}
		e.SetFilterFunction("onlyb", func(v interface{}) (interface{}, error) { return zzWrapped{fn: "onlyb", arg: v}, nil })
		e.SetAggregateFunction("onlyagg", func(v []interface{}) (interface{}, error) { return zzWrapped{fn: "onlyagg", arg: nil}, nil })
		e.SetAccessorMode()
		return []Config{*zzShared(), e}
	}
	return nil
}

var zzSharedCfg *Config

func zzShared() *Config {
	if zzSharedCfg == nil {
		c := Config{}
		zzAddFuncs(&c)
		zzSharedCfg = &c
	}
	return zzSharedCfg
}

// zzH_C19: a history of Parse calls followed by the call under test; the
// outcome must equal the outcome of the same call made from the initial state
// (which the harness obtains by making the call first, before the history -
// sound because (a) below shows that each call leaves the parser state as it
// found it).
func zzH_C19() {
	zzDeclHoles()
	path := zzPath("path")
	cfgName := zzParam("config")
	// reference: the call made first
	f0, e0, p0 := zzTryParse(path, zzCfgNamed(cfgName))
	zzAssert(p0 == nil, "no-panic")
	zzAssert(zzMutexFree(), "mutex-free")
	zzAssert(zzParserClean(), "parser-state-reset")
	// history
	for i, h := range zzSplit(zzParam("history"), '\n') {
		if h == "" {
			continue
		}
		parts := zzSplit(h, '\t')
		_, _, ph := zzTryParse(parts[1], zzCfgNamed(parts[0]))
		zzAssert(ph == nil, "no-panic")
		zzAssert(zzMutexFree(), "mutex-free")
		zzAssert(zzParserClean(), "parser-state-reset")
		_ = i
	}
	// the same call in this process (after the history) and in a fresh process
	zzAssert(zzParseOutcome(path, cfgName) == zzFreshOutcome(path, cfgName), "same-outcome-as-fresh-process")
	cfg := zzCfgNamed(cfgName)
	f1, e1, p1 := zzTryParse(path, cfg)
	zzAssert(p1 == nil, "no-panic")
	zzAssert(zzMutexFree(), "mutex-free")
	zzAssert(zzParserClean(), "parser-state-reset")
	zzAssert((e0 == nil) == (e1 == nil), "same-parse-outcome")
	if e0 != nil && e1 != nil {
		zzAssert(zzErrKind(e0) == zzErrKind(e1) && e0.Error() == e1.Error(), "same-parse-error")
		zzOut("perr", e1)
		return
	}
	if e0 != nil || e1 != nil || f0 == nil || f1 == nil {
		return
	}
	// modifying the Config afterwards does not change the parsed function;
	// which of the setters is used is a choice (each alone, or all of them)
	mod := 0
	if len(cfg) > 0 {
		mod = zzIntRange("mod", 0, 2)
		if mod != 0 {
			cfg[0].SetFilterFunction("f", func(v interface{}) (interface{}, error) { return zzWrapped{fn: "late-f", arg: v}, nil })
			cfg[0].SetAggregateFunction("agg", func(v []interface{}) (interface{}, error) { return zzWrapped{fn: "late-agg", arg: nil}, nil })
		}
		if mod != 1 {
			cfg[0].SetAccessorMode()
		}
	}
	doc := zzDoc("doc")
	// a Parse made after the Config was modified uses the Config as it is now
	if len(cfg) > 0 {
		f2, e2, p2 := zzTryParse(path, cfg)
		zzAssert(p2 == nil && e2 == nil && f2 != nil, "reparse-with-modified-config")
		if p2 == nil && e2 == nil && f2 != nil {
			r2, x2, q2 := zzTry(f2, doc)
			zzAssert(q2 == nil, "no-panic")
			if q2 == nil && x2 == nil {
				wasAcc := cfgName == "accessor" || cfgName == "funcs+accessor"
				for _, v := range r2 {
					a, isAcc := v.(Accessor)
					zzAssert(isAcc == (wasAcc || mod != 1), "reparse-uses-the-current-config")
					var plain interface{} = v
					if isAcc {
						plain = a.Get()
					}
					if w, ok := plain.(zzWrapped); ok && mod != 0 {
						zzAssert(w.fn != "f", "reparse-uses-the-current-config")
					}
				}
			}
		}
	}
	zzCallLog = nil
	r0, x0, q0 := zzTry(f0, doc)
	log0 := zzCallLog
	zzCallLog = nil
	r1, x1, q1 := zzTry(f1, doc)
	log1 := zzCallLog
	zzAssert(q0 == nil && q1 == nil, "no-panic")
	if q0 != nil || q1 != nil {
		return
	}
	zzOut("r1", zzUnwrapAcc(r1))
	zzOut("x1", x1)
	zzAssert((x0 == nil) == (x1 == nil), "same-behaviour")
	if x0 == nil && x1 == nil {
		zzAssert(len(r0) == len(r1), "same-behaviour")
		if len(r0) == len(r1) {
			for i := range r0 {
				a0, isA0 := r0[i].(Accessor)
				a1, isA1 := r1[i].(Accessor)
				zzAssert(isA0 == isA1, "same-accessor-wrapping")
				zzAssert(isA1 == (cfgName == "accessor" || cfgName == "funcs+accessor"), "accessor-mode-of-this-config-only")
				if isA0 && isA1 {
					zzAssert(zzSame(a0.Get(), a1.Get()), "same-behaviour")
				} else if !isA0 && !isA1 {
					zzAssert(zzSame(r0[i], r1[i]), "same-behaviour")
				}
			}
		}
	}
	if x0 != nil && x1 != nil {
		zzAssert(zzErrKind(x0) == zzErrKind(x1) && x0.Error() == x1.Error(), "same-behaviour")
	}
	zzAssert(len(log0) == len(log1), "same-functions-called")
	if len(log0) == len(log1) {
		for i := range log0 {
			zzAssert(log0[i].fn == log1[i].fn && zzSameArgs(log0[i].args, log1[i].args), "same-functions-called")
		}
	}
}

func zzUnwrapAcc(r []interface{}) []interface{} {
	out := make([]interface{}, len(r))
	for i, v := range r {
		if a, ok := v.(Accessor); ok {
			out[i] = a.Get()
		} else {
			out[i] = v
		}
	}
	return out
}

// zzH_C19_spec: after any history of Parse calls, a freshly parsed function
// still behaves as the reference semantics say (catches state that a first
// call leaves behind for later ones, e.g. caches keyed too coarsely).
func zzH_C19_spec() {
	for _, h := range zzSplit(zzParam("history"), '\n') {
		if h == "" {
			continue
		}
		parts := zzSplit(h, '\t')
		_, _, ph := zzTryParse(parts[1], zzCfgNamed(parts[0]))
		zzAssert(ph == nil, "no-panic")
	}
	zzH_Eval()
}

// zzParseOutcome summarises the outcome of one Parse call.
func zzParseOutcome(path, cfgName string) string {
	f, err, pan := zzTryParse(path, zzCfgNamed(cfgName))
	switch {
	case pan != nil:
		return "panic"
	case err != nil:
		return zzErrKind(err) + "|" + err.Error()
	case f == nil:
		return "nil"
	}
	return "ok"
}
