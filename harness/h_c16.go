//go:build verif

package jsonpath

func init() {
	zzHarnesses["zzH_C16"] = zzH_C16
}

const zzHexDigits = "0123456789abcdef"

// zzQuoteKey renders a key inside quotes with JSON-style escaping: the quote
// character and the backslash are backslash-escaped, control characters are
// written as \u00XX; everything else is written as is.
func zzQuoteKey(k string, quote byte) string {
	out := []byte{quote}
	for i := 0; i < len(k); i++ {
		c := k[i]
		switch {
		case c == quote || c == '\\':
			out = append(out, '\\', c)
		case c < 0x20:
			out = append(out, '\\', 'u', '0', '0', zzHexDigits[c>>4], zzHexDigits[c&15])
		default:
			out = append(out, c)
		}
	}
	out = append(out, quote)
	return string(out)
}

// zzIsSymbolChar: the characters the grammar requires to be backslash-escaped
// in dot notation (signsWithoutHyphenUnderscore).
func zzIsSymbolChar(c byte) bool {
	return (c >= ' ' && c <= ',') || c == '.' || c == '/' || (c >= ':' && c <= '@') || (c >= '[' && c <= '^') || c == '`' || (c >= '{' && c <= '~')
}

// zzDotKey renders a key in dot notation; ok is false when the key cannot be
// written that way (empty, or containing a control character).
func zzDotKey(k string) (string, bool) {
	if len(k) == 0 {
		return "", false
	}
	var out []byte
	for i := 0; i < len(k); i++ {
		c := k[i]
		if c < 0x20 || c == 0x7f {
			return "", false
		}
		if zzIsSymbolChar(c) {
			out = append(out, '\\')
		}
		out = append(out, c)
	}
	return string(out), true
}

// zzH_C16: every member is addressable; the notations are equivalent.
func zzH_C16() {
	k := zzHoleBytes(zzParam("key"), zzParam("holepos"), "k")
	near := zzHoleBytes(zzParam("near"), zzParam("nearpos"), "k")
	zzAssume(k != near)
	pos := zzParam("pos")
	v1, v2 := 1.0, 2.0
	obj := map[string]interface{}{}
	obj[k] = v1
	obj[near] = v2
	var doc interface{} = obj
	prefix, suffix := "$", ""
	switch pos {
	case "nested":
		doc = map[string]interface{}{"in": obj}
		prefix = "$.in"
	case "filter":
		doc = []interface{}{obj}
		prefix, suffix = "$[?(@", " == 1)]"
	}
	check := func(path string, label string) {
		res, err, pan := zzTryRetrieve(path, doc, nil)
		zzAssert(pan == nil, "no-panic")
		if pan != nil {
			return
		}
		zzOut(label, res)
		zzOut(label+"-err", err)
		if pos == "filter" {
			zzAssert(err == nil && len(res) == 1, label)
			return
		}
		zzAssert(err == nil && len(res) == 1, label)
		if err == nil && len(res) == 1 {
			f, isF := res[0].(float64)
			zzAssert(isF && f == v1, label)
		}
	}
	check(prefix+"["+zzQuoteKey(k, '\'')+"]"+suffix, "single-quoted")
	check(prefix+"["+zzQuoteKey(k, '"')+"]"+suffix, "double-quoted")
	if dot, ok := zzDotKey(k); ok {
		check(prefix+"."+dot+suffix, "dot-notation")
	}
	// the sibling is addressable too and is not confused with the key
	res, err, pan := zzTryRetrieve(prefix+"["+zzQuoteKey(near, '\'')+"]"+suffix, doc, nil)
	zzAssert(pan == nil, "no-panic")
	if pan == nil && pos != "filter" {
		zzAssert(err == nil && len(res) == 1, "sibling-addressable")
		if err == nil && len(res) == 1 {
			f, isF := res[0].(float64)
			zzAssert(isF && f == v2, "sibling-addressable")
		}
	}
}
