//go:build verif

package jsonpath

func init() {
	zzHarnesses["zzH_Eval"] = zzH_Eval
}

func zzHas(list, item string) bool {
	for _, x := range zzSplit(list, ',') {
		if x == item {
			return true
		}
	}
	return false
}

func zzUserFnFailed() bool {
	for _, c := range zzCallLog {
		switch c.fn {
		case "fail", "aggfail", "failrt":
			return true
		case "failnum":
			if _, ok := c.args[0].(float64); ok {
				return true
			}
		}
	}
	return false
}

func zzWrapDepth(v interface{}) int {
	switch x := v.(type) {
	case zzWrapped:
		return 1 + zzWrapDepth(x.arg)
	case zzWrappedAgg:
		d := 0
		for _, a := range x.args {
			if k := zzWrapDepth(a); k > d {
				d = k
			}
		}
		return 1 + d
	}
	return 0
}

func zzCallDepth(c zzCall) int {
	d := 0
	for _, a := range c.args {
		if k := zzWrapDepth(a); k > d {
			d = k
		}
	}
	return d
}

func zzCallsAtDepth(log []zzCall, d int) []zzCall {
	var out []zzCall
	for _, c := range log {
		if zzCallDepth(c) == d {
			out = append(out, c)
		}
	}
	return out
}

func zzHasCall(log []zzCall, c zzCall) bool {
	for _, x := range log {
		if x.fn == c.fn && zzSameArgs(x.args, c.args) {
			return true
		}
	}
	return false
}

// zzSameArgs compares two argument lists value by value.
func zzSameArgs(a, b []interface{}) bool {
	if len(a) != len(b) {
		return false
	}
	for i := range a {
		if !zzSame(a[i], b[i]) {
			return false
		}
	}
	return true
}

// zzH_Eval is the general evaluation harness. One corpus path (text + AST),
// one configuration variant, one symbolic document. The "checks" parameter
// selects which property's assertions are stated:
//
//	C03 totality and result shape      C04 document frame condition
//	C01 differential against the spec  C14 function call protocol
func zzH_Eval() {
	checks := zzParam("checks")
	zzDeclHoles()
	path := zzPath("path")
	cfg := zzConfig()
	f, perr, ppan := zzTryParse(path, cfg)
	zzAssert(ppan == nil && perr == nil && f != nil, "corpus-path-parses")
	if ppan != nil || perr != nil || f == nil {
		zzOut("perr", perr)
		return
	}
	doc := zzInputDoc("doc")
	if zzParam("preboom") == "1" {
		// an earlier evaluation that a panicking user function aborted half-way
		// (one value collected, then the panic), recovered by the caller
		bc := Config{}
		zzAddFuncs(&bc)
		_, _, bp := zzTryRetrieve(`$[*].boomnum()`, []interface{}{"kept", "kept2", 1.0}, []Config{bc})
		_, own := bp.(zzBoom)
		zzAssert(own, "user-panic-reaches-the-caller")
	}
	zzCallLog = nil
	got, err, pan := zzTry(f, doc)
	implCalls := zzCallLog
	zzOut("got", got)
	if err != nil {
		text, epan := zzErrorText(err)
		zzAssert(epan == nil, "error-text-can-be-printed")
		if epan != nil {
			return
		}
		zzOutStr("err", zzErrKind(err)+":"+text)
	}
	zzAssert(pan == nil, "no-panic")
	if pan != nil {
		zzOut("panic", "yes")
		return
	}
	if zzHas(checks, "C03") {
		kind := zzErrKind(err)
		if err == nil {
			zzAssert(len(got) > 0, "success-is-nonempty")
		} else {
			zzAssert(got == nil, "error-has-nil-result")
			zzAssert(kind == "MemberNotExist" || kind == "TypeUnmatched" || kind == "FunctionFailed", "documented-runtime-error")
			if kind == "FunctionFailed" {
				zzAssert(zzUserFnFailed(), "function-failed-only-if-user-function-failed")
			}
		}
	}
	if zzHas(checks, "C04") {
		zzAssert(zzDocUnchanged(), "document-unchanged")
	}
	if !zzHas(checks, "C01") && !zzHas(checks, "C14") {
		return
	}
	ast := zzParseSexp(zzParam("ast"))
	sp, want := zzEval(ast, doc)
	if zzHas(checks, "C01") {
		zzAssert((err == nil) == (len(want) > 0), "fails-iff-spec-selects-nothing")
		if err == nil && len(want) > 0 {
			zzAssert(len(got) == len(want), "result-count")
			if len(got) == len(want) {
				for i := range got {
					zzAssert(zzSame(got[i], want[i].v), "result-value")
				}
			}
		}
	}
	if zzHas(checks, "C14") {
		// a navigation error names a step of this query, whatever a user function returned
		switch e := err.(type) {
		case ErrorMemberNotExist:
			zzAssert(zzContainsStr(zzPath("path"), e.node.text), "error-names-a-step-of-the-query")
		case ErrorTypeUnmatched:
			zzAssert(zzContainsStr(zzPath("path"), e.node.text), "error-names-a-step-of-the-query")
		}
		if len(sp.fcalls) == 0 && zzParam("infilter") == "1" {
			// the reference never evaluated the filter (no member): how often
			// an operand is evaluated is not prescribed, nothing to compare
		} else if len(sp.fcalls) == 0 {
			// Functions at the tail of the path: per chain position (= wrapping
			// depth of the argument) the calls must be the same sequence. How
			// calls of different positions interleave is not prescribed.
			zzAssert(len(implCalls) == len(sp.calls), "call-count")
			for d := 0; d <= 4; d++ {
				a, b := zzCallsAtDepth(implCalls, d), zzCallsAtDepth(sp.calls, d)
				zzAssert(len(a) == len(b), "call-count")
				if len(a) == len(b) {
					for i := range a {
						zzAssert(a[i].fn == b[i].fn, "call-order")
						zzAssert(zzSameArgs(a[i].args, b[i].args), "call-arguments")
					}
				}
			}
		} else {
			// Functions inside filter operands: how often an operand is
			// evaluated is not prescribed; every call made must be one the
			// reference makes and vice versa.
			all := append(append([]zzCall(nil), sp.calls...), sp.fcalls...)
			for _, c := range implCalls {
				zzAssert(zzHasCall(all, c), "call-is-expected")
			}
			for _, c := range all {
				zzAssert(zzHasCall(implCalls, c), "expected-call-is-made")
			}
		}
		if err != nil && len(want) == 0 && sp.fnFailed && zzErrKind(err) == "FunctionFailed" {
			// the named function must be one that failed
			ff := err.(ErrorFunctionFailed)
			named := false
			for _, n := range sp.failedFns {
				if ff.node.text == "."+n+"()" {
					named = true
				}
			}
			zzAssert(named, "function-failed-names-a-failed-function")
		}
	}
}

func zzContainsStr(s, sub string) bool {
	for i := 0; i+len(sub) <= len(s); i++ {
		if s[i:i+len(sub)] == sub {
			return true
		}
	}
	return false
}
