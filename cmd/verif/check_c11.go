package main

import (
	"fmt"

	"verif/engine"
)

func init() {
	register(&CheckDef{
		ID:         "C11",
		SolverDiff: true,
		Level:      "model_checking",
		Technique:  "bounded symbolic execution of the real parser actions and getIndexes kernels (go/ssa -> SMT bit-vectors, z3): start/end/step are 64-bit symbolic numeral holes, array length enumerated",
		Jobs:       c11Jobs,
		Bounds: func(tier string) map[string]interface{} {
			return map[string]interface{}{"start,end,step": "all int64 (symbolic BV64)", "array length": fmt.Sprintf("0..%d", c11MaxLen(tier)),
				"forms": "all 8 omitted-combinations of [s:e:t], the 4 of [s:e], [n], union [n,s:e:t]", "fuel": "5e6 SSA steps per path (unwinding assertion)"}
		},
		Stubs:        commonStubs,
		Assumptions:  append([]string{"numeral text <-> value relation of strconv.Atoi is trusted (the hole stands for any in-range literal)"}, commonAssumptions...),
		ExpectLabels: []string{"parse", "no-panic", "empty-is-error", "slice-length", "slice-element", "index-element"},
	})
}

func c11MaxLen(tier string) int {
	if tier == "thorough" {
		return 16
	}
	return 8
}

func c11Jobs(tier string, seed int64) []*engine.Job {
	var jobs []*engine.Job
	ml := fmt.Sprint(c11MaxLen(tier))
	hole := []string{"7001", "7002", "7003"}
	names := []string{"start", "end", "step"}
	for mask := 0; mask < 8; mask++ {
		for _, parts := range []int{3, 2} {
			if parts == 2 && mask&4 != 0 {
				continue
			}
			path := "$["
			form := ""
			holes := ""
			for i := 0; i < parts; i++ {
				if i > 0 {
					path += ":"
				}
				if mask&(1<<uint(i)) != 0 {
					path += hole[i]
					form += "h"
					if holes != "" {
						holes += ";"
					}
					holes += hole[i] + "=" + names[i]
				} else {
					form += "-"
				}
			}
			if parts == 2 {
				form += "-"
			}
			path += "]"
			for n := 0; n <= c11MaxLen(tier); n++ {
				jobs = append(jobs, &engine.Job{ID: fmt.Sprintf("slice%d-%s-len%d", parts, form, n), Harness: "zzH_C11_slice",
					Params: map[string]string{"path": path, "form": form, "holes": holes, "minlen": fmt.Sprint(n), "maxlen": fmt.Sprint(n)}})
			}
		}
	}
	jobs = append(jobs, &engine.Job{ID: "index", Harness: "zzH_C11_index",
		Params: map[string]string{"path": "$[7001]", "holes": "7001=index", "minlen": "0", "maxlen": ml}})
	return jobs
}
