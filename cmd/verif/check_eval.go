package main

import (
	"fmt"
	"math/rand"
	"os"
	"strconv"
	"strings"

	"verif/engine"
)

// evalDocCfgs returns the document bound of a path and successively narrower
// fallbacks used when the path budget of the tier is exceeded.
func evalDocCfgs(p Path, tier string, number bool) []*engine.DocCfg {
	cfgs := evalDocCfgs0(p, tier, number)
	for _, c := range cfgs {
		c.NumOverflow = number
	}
	return cfgs
}

func evalDocCfgs0(p Path, tier string, number bool) []*engine.DocCfg {
	depth := p.Depth
	if depth > 3 {
		depth = 3
	}
	if depth < 1 {
		depth = 1
	}
	sc := uint32(jsonScalars)
	if number {
		sc = engine.KNil | engine.KBool | engine.KNumber | engine.KString
	}
	maxLen := 2
	if tier == "thorough" {
		maxLen = 3
	}
	keys := []string{"a", "b"}
	exhaustive, hasDesc := 0, false
	for _, s := range p.Steps {
		switch s.Kind {
		case "name", "index", "func", "agg":
		case "desc":
			hasDesc = true
			exhaustive++
		default:
			exhaustive++
		}
	}
	wide := docCfg(depth, maxLen, keys, sc)
	if depth < 3 {
		return []*engine.DocCfg{wide, docCfg(depth, 2, keys, sc), docCfg(depth, 1, keys, sc)}
	}
	n1 := docCfg(depth, 2, keys, sc)
	n1.KeysAt = map[int][]string{1: {"a"}}
	n1.MaxLenAt = map[int]int{1: 1}
	n2 := docCfg(depth, 2, keys, sc)
	n2.KeysAt = map[int][]string{1: {"a"}}
	n2.MaxLenAt = map[int]int{1: 1, 2: 1}
	n3 := docCfg(depth, 2, keys, sc)
	n3.KeysAt = map[int][]string{1: {"a"}, 2: {"a"}}
	n3.MaxLenAt = map[int]int{1: 1, 2: 1}
	n4 := docCfg(depth, 1, keys, sc)
	n4.KeysAt = map[int][]string{1: {"a"}, 2: {"a"}}
	d2 := docCfg(2, 2, keys, sc)
	d1 := docCfg(2, 1, keys, sc)
	if tier == "thorough" {
		return []*engine.DocCfg{wide, n1, n2, n3, n4, d2, d1}
	}
	switch {
	case exhaustive == 0:
		return []*engine.DocCfg{wide, n1, d2}
	case hasDesc || exhaustive >= 2:
		return []*engine.DocCfg{n2, n4, d2, d1}
	}
	return []*engine.DocCfg{n1, n3, d2, d1}
}

func evalBudget(tier string) int {
	if tier == "thorough" {
		return 20000
	}
	return 5000
}

func evalJobs(prefix string, paths []Path, checks string, tier string, forceFuncs bool, number bool) []*engine.Job {
	var jobs []*engine.Job
	for i, p := range paths {
		cfg := ""
		if p.Funcs || forceFuncs {
			cfg = "funcs"
		}
		j := &engine.Job{ID: fmt.Sprintf("%s-%d", prefix, i), Harness: "zzH_Eval",
			Params: map[string]string{"path": p.Text, "ast": p.Ast, "holes": p.Holes, "config": cfg, "checks": checks, "infilter": inFilterFlag(p)},
		}
		cfgs := evalDocCfgs(p, tier, number)
		j.Docs = map[string]*engine.DocCfg{"doc": cfgs[0]}
		for _, c := range cfgs[1:] {
			j.Narrow = append(j.Narrow, map[string]*engine.DocCfg{"doc": c})
		}
		j.Budget = evalBudget(tier)
		jobs = append(jobs, j)
	}
	return jobs
}

func evalBounds(tier string) map[string]interface{} {
	d, w := 3, 2
	if tier == "thorough" {
		w = 3
	}
	return map[string]interface{}{
		"document": fmt.Sprintf("lazy symbolic tree: container depth <= min(steps needed, %d), arrays 0..%d elements, object keys any subset of {a,b}, leaves null/bool/float64/string with symbolic payloads (float64 incl. NaN/Inf, strings by identity)", d, w),
		"paths":    "enumerated corpus (see 'programs'); numerals written 700x / 7.5e1 are symbolic holes (any int64 / any finite float64)",
		"fuel":     "5e6 SSA steps per path, call depth 400 (unwinding assertions: exceeding them is reported as inconclusive, never as success)",
	}
}

func init() {
	register(&CheckDef{
		ID:        "EVAL",
		Level:     "model_checking",
		Technique: "debug: all evaluation assertions at once",
		Jobs: func(tier string, seed int64) []*engine.Job {
			rng := rand.New(rand.NewSource(seed))
			ps := dedupPaths(append(stepPaths(tier, rng), filterPaths(tier, rng)...))
			return evalJobs("eval", ps, "C01,C03,C04", tier, false, false)
		},
		Bounds:      evalBounds,
		Stubs:       commonStubs,
		Assumptions: commonAssumptions,
	})
}

func samplePaths(ps []Path, n int, rng *rand.Rand) []Path {
	if len(ps) <= n {
		return ps
	}
	idx := rng.Perm(len(ps))[:n]
	out := make([]Path, 0, n)
	for _, i := range idx {
		out = append(out, ps[i])
	}
	return out
}

func pathsWith(ps []Path, pred func(Path) bool) []Path {
	var out []Path
	for _, p := range ps {
		if pred(p) {
			out = append(out, p)
		}
	}
	return out
}

func nSteps(p Path) int { return len(p.Steps) }

// tierN picks a sample size. The thorough sizes written at the call sites are
// what the corpus could supply; they are capped at VERIF_THOROUGH_SCALE (default
// 3) times the quick size, the largest scale whose full thorough pass was run
// clean on the unchanged tree in the time available (DESIGN.md 11.7).
func tierN(tier string, quick, thorough int) int {
	if tier == "thorough" {
		if quick >= 10 && thorough > thoroughScale*quick {
			return thoroughScale * quick
		}
		return thorough
	}
	return quick
}

var thoroughScale = func() int {
	if v, err := strconv.Atoi(os.Getenv("VERIF_THOROUGH_SCALE")); err == nil && v >= 1 {
		return v
	}
	return 3
}()

func init() {
	evalStubs := append([]string{"user functions: harness closures that log their argument and return an injective wrapper (f, g, agg, agh), or fail (fail, failnum on float64, aggfail)"}, commonStubs...)
	specAssumption := "the reference evaluator (/verif/harness/spec.go, written from the property statements: explicit node lists, filters as Boolean functions of (root, member)) is the oracle; it runs symbolically on the same lazy document and natively in replays"

	register(&CheckDef{
		ID:        "C01",
		Level:     "model_checking",
		Technique: "differential bounded symbolic execution: real Parse + evaluation vs. an independent reference evaluator, both run by the SSA engine on one lazy symbolic document; z3 decides payload-dependent branches and assertions",
		Jobs: func(tier string, seed int64) []*engine.Job {
			rng := rand.New(rand.NewSource(seed))
			sp := stepPaths(tier, rng)
			one2 := pathsWith(sp, func(p Path) bool { return nSteps(p) <= 2 })
			three := samplePaths(pathsWith(sp, func(p Path) bool { return nSteps(p) == 3 }), tierN(tier, 250, 3000), rng)
			fl := samplePaths(filterPaths(tier, rng), tierN(tier, 350, 5000), rng)
			fn := samplePaths(funcPaths(tier, rng), tierN(tier, 200, 3000), rng)
			ps := dedupPaths(append(append(append(append(append(one2, three...), fl...), fn...), widePaths()...), append(holeSlicePaths()[:3], nestedFilterPaths()...)...))
			jobs := evalJobs("c01", ps, "C01", tier, false, false)
			// json.Number decoding on a sample
			jobs = append(jobs, evalJobs("c01n", samplePaths(ps, tierN(tier, 150, 2000), rng), "C01", tier, false, true)...)
			jobs = append(jobs, wideDocJobs("c01wide", tier, rng)...)
			jobs = append(jobs, longArrayJobs("c01long", "C01", "")...)
			return jobs
		},
		Bounds:       evalBounds,
		Stubs:        evalStubs,
		Assumptions:  append([]string{specAssumption}, commonAssumptions...),
		ExpectLabels: []string{"corpus-path-parses", "fails-iff-spec-selects-nothing", "result-count", "result-value"},
	})

	register(&CheckDef{
		ID:        "C03",
		Level:     "model_checking",
		Technique: "bounded symbolic execution of the real evaluation code on lazy symbolic documents (every root kind) and int64 numeral holes; z3 decides the result-shape assertions on every path",
		Jobs: func(tier string, seed int64) []*engine.Job {
			rng := rand.New(rand.NewSource(seed + 3))
			sp := stepPaths(tier, rng)
			holes := pathsWith(sp, func(p Path) bool { return p.Holes != "" })
			rest := samplePaths(pathsWith(sp, func(p Path) bool { return p.Holes == "" }), tierN(tier, 300, 3000), rng)
			fl := samplePaths(filterPaths(tier, rng), tierN(tier, 250, 4000), rng)
			fn := samplePaths(funcPaths(tier, rng), tierN(tier, 250, 3000), rng)
			holes = samplePaths(holes, tierN(tier, 150, 2000), rng)
			ps := dedupPaths(append(append(append(append(append(holes, rest...), fl...), fn...), widePaths()...), holeSlicePaths()...))
			jobs := evalJobs("c03", ps, "C03", tier, false, false)
			jobs = append(jobs, evalJobs("c03n", samplePaths(ps, tierN(tier, 150, 2000), rng), "C03", tier, false, true)...)
			return jobs
		},
		Bounds:       evalBounds,
		Stubs:        evalStubs,
		Assumptions:  commonAssumptions,
		ExpectLabels: []string{"no-panic", "success-is-nonempty", "error-has-nil-result", "documented-runtime-error", "function-failed-only-if-user-function-failed"},
	})

	register(&CheckDef{
		ID:        "C04",
		Level:     "model_checking",
		Technique: "bounded symbolic execution with an explicit heap: after each call the engine compares every materialised document cell with its initial content (frame condition), on lazy symbolic documents",
		Jobs: func(tier string, seed int64) []*engine.Job {
			rng := rand.New(rand.NewSource(seed + 4))
			fl := filterPaths(tier, rng)
			logical := pathsWith(fl, func(p Path) bool { return true })
			fl = samplePaths(logical, tierN(tier, 700, 8000), rng)
			sp := stepPaths(tier, rng)
			one := pathsWith(sp, func(p Path) bool { return nSteps(p) <= 1 })
			two := samplePaths(pathsWith(sp, func(p Path) bool { return nSteps(p) == 2 }), tierN(tier, 150, 600), rng)
			fn := append(funcPathsCore(tier), samplePaths(funcPaths(tier, rng), tierN(tier, 80, 1000), rng)...)
			ps := dedupPaths(append(append(append(append(fl, one...), two...), fn...), literalPaths()...))
			jobs := evalJobs("c04", ps, "C04", tier, false, false)
			jobs = append(jobs, longArrayJobs("c04long", "C04,C03", "")...)
			// json.Number decoding (conversions must not be written back into the document)
			jobs = append(jobs, evalJobs("c04n", samplePaths(ps, tierN(tier, 400, 3000), rng), "C04", tier, false, true)...)
			// accessor mode without Set
			acc := samplePaths(ps, tierN(tier, 150, 2000), rng)
			for i, p := range acc {
				cfgs := evalDocCfgs(p, tier, false)
				j := &engine.Job{ID: fmt.Sprintf("c04acc-%d", i), Harness: "zzH_Eval",
					Params: map[string]string{"path": p.Text, "ast": p.Ast, "holes": p.Holes, "config": "funcs+accessor", "checks": "C04", "infilter": "0"},
					Docs:   map[string]*engine.DocCfg{"doc": cfgs[0]}, Budget: evalBudget(tier)}
				for _, c := range cfgs[1:] {
					j.Narrow = append(j.Narrow, map[string]*engine.DocCfg{"doc": c})
				}
				jobs = append(jobs, j)
			}
			return jobs
		},
		Bounds:       evalBounds,
		Stubs:        evalStubs,
		Assumptions:  commonAssumptions,
		ExpectLabels: []string{"document-unchanged"},
	})

	register(&CheckDef{
		ID:        "C14",
		Level:     "model_checking",
		Technique: "differential bounded symbolic execution: recorded user-function calls of the real evaluation vs. the reference evaluator's call log, on lazy symbolic documents",
		Jobs: func(tier string, seed int64) []*engine.Job {
			rng := rand.New(rand.NewSource(seed + 14))
			fn := samplePaths(funcPaths(tier, rng), tierN(tier, 500, 6000), rng)
			return evalJobs("c14", dedupPaths(fn), "C14,C01", tier, true, false)
		},
		Bounds:       evalBounds,
		Stubs:        evalStubs,
		Assumptions:  append([]string{specAssumption, "calls made while evaluating filter operands are not compared (their order is not fixed by the statement)"}, commonAssumptions...),
		ExpectLabels: []string{"call-count", "call-order", "call-arguments"},
	})
}

// inFilterFlag: "1" when a function call occurs inside a filter expression.
func inFilterFlag(p Path) string {
	for _, s := range p.Steps {
		if (s.Kind == "filter" || s.Kind == "desc") && s.Funcs {
			return "1"
		}
	}
	return "0"
}

func init() {
	register(&CheckDef{
		ID:        "C15",
		Level:     "model_checking",
		Technique: "differential bounded symbolic execution on failing (path, document) pairs: the error value of the real evaluation vs. the set of admissible errors computed by the reference evaluator (failures at the deepest failing step, non-type failures preferred), on lazy symbolic documents",
		Jobs: func(tier string, seed int64) []*engine.Job {
			rng := rand.New(rand.NewSource(seed + 15))
			sp := stepPaths(tier, rng)
			one2 := pathsWith(sp, func(p Path) bool { return nSteps(p) >= 1 && nSteps(p) <= 2 })
			three := samplePaths(pathsWith(sp, func(p Path) bool { return nSteps(p) == 3 }), tierN(tier, 250, 3000), rng)
			fn := samplePaths(funcPaths(tier, rng), tierN(tier, 250, 3000), rng)
			fl := samplePaths(filterPaths(tier, rng), tierN(tier, 60, 1000), rng)
			var jobs []*engine.Job
			for i, p := range dedupPaths(append(append(append(one2, three...), fn...), fl...)) {
				if strings.Contains(p.Text, "7.5e1") && false {
					continue
				}
				cfg := ""
				if p.Funcs {
					cfg = "funcs"
				}
				single := "1"
				for _, s := range p.Steps {
					if s.Multi || s.Kind == "agg" {
						single = "0"
					}
				}
				jobs = append(jobs, relJob(fmt.Sprintf("c15-%d", i), "zzH_C15",
					map[string]string{"path": p.Text, "ast": p.Ast, "texts": p.Texts, "holes": p.Holes, "config": cfg, "single": single, "opaque": "0"}, p, tier))
			}
			return jobs
		},
		Bounds:       evalBounds,
		Stubs:        commonStubs,
		Assumptions:  append([]string{"step texts are those the grammar captures for a step as written (`.a`, the whole bracket, `..` and the bare selector after it, `.f()`)", "for `..X` with no container X applies to, 'member did not exist (path=..)' is admissible"}, commonAssumptions...),
		ExpectLabels: []string{"error-names-a-deepest-real-failure", "spec-has-a-failure", "single-valued-path-has-one-candidate"},
	})
}

// longArrayJobs: the union corpus on arrays of 0..5 scalar elements (root
// array, or the array under key a of a root object).
func longArrayJobs(prefix, checks, config string) []*engine.Job {
	var jobs []*engine.Job
	for i, p := range unionPaths() {
		var cfg *engine.DocCfg
		if strings.HasPrefix(p.Text, "$.a") {
			cfg = docCfg(2, 5, []string{"a"}, engine.KNil|engine.KFloat|engine.KString)
			cfg.RootKinds = engine.KMap
		} else {
			cfg = docCfg(1, 5, []string{"a"}, engine.KNil|engine.KFloat|engine.KString)
			cfg.RootKinds = engine.KArray
		}
		jobs = append(jobs, &engine.Job{ID: fmt.Sprintf("%s-%d", prefix, i), Harness: "zzH_Eval",
			Params: map[string]string{"path": p.Text, "ast": p.Ast, "holes": "", "config": config, "checks": checks, "infilter": "0"},
			Docs:   map[string]*engine.DocCfg{"doc": cfg}})
	}
	// multi-name selectors on objects over the keys {a,b,c} (any subset present)
	for i, p := range multiNamePaths() {
		cfg := docCfg(p.Depth, 2, []string{"a", "b", "c"}, engine.KNil|engine.KFloat|engine.KString)
		if p.Depth > 1 {
			cfg.MaxLenAt = map[int]int{1: 1}
		}
		jobs = append(jobs, &engine.Job{ID: fmt.Sprintf("%s-names-%d", prefix, i), Harness: "zzH_Eval",
			Params: map[string]string{"path": p.Text, "ast": p.Ast, "holes": "", "config": config, "checks": checks, "infilter": "0"},
			Docs:   map[string]*engine.DocCfg{"doc": cfg}, Budget: 20000})
	}
	return jobs
}
