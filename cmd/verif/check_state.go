package main

import (
	"fmt"
	"math/rand"
	"strings"
	"time"

	"verif/engine"
)

// stressConfirm re-runs a discipline candidate natively: goroutines sharing
// the parsed function and the document under the race detector.
func stressConfirm(c *candidate, repo, harness string) (bool, string) {
	fx := *c.Fixture
	fx.Harness = "zzH_Stress"
	rr, err := engine.NativeReplay(repo, harness, []*engine.Fixture{&fx}, true, 5*time.Minute)
	if err != nil || len(rr) != 1 {
		return false, fmt.Sprint(err)
	}
	if rr[0].Crashed || rr[0].Panicked || len(rr[0].Failed) > 0 {
		c.Native = &rr[0]
		return true, rr[0].CrashMsg
	}
	return false, ""
}

func statePaths(tier string, rng *rand.Rand) []Path {
	sp := stepPaths(tier, rng)
	one := pathsWith(sp, func(p Path) bool { return nSteps(p) <= 1 })
	two := samplePaths(pathsWith(sp, func(p Path) bool { return nSteps(p) == 2 }), tierN(tier, 80, 1000), rng)
	fl := samplePaths(filterPaths(tier, rng), tierN(tier, 200, 4000), rng)
	fn := samplePaths(funcPaths(tier, rng), tierN(tier, 60, 800), rng)
	return dedupPaths(append(append(append(append(append(one, two...), fl...), fn...), widePaths()...), literalPaths()...))
}

// bigDocs: concrete documents beyond the symbolic size bounds (buffers that
// grow, tables that are extended, thresholds at 16/64/...): cheap, no forks.
func bigDocs() []string {
	arr := func(n int) string {
		parts := make([]string, n)
		for i := range parts {
			parts[i] = fmt.Sprint(i)
		}
		return "[" + strings.Join(parts, ",") + "]"
	}
	obj := func(n int) string {
		parts := make([]string, n)
		for i := range parts {
			parts[i] = fmt.Sprintf("\"k%03d\":%d", i, i)
		}
		return "{" + strings.Join(parts, ",") + ",\"a\":{\"a\":1,\"b\":[1,2]},\"b\":" + arr(20) + "}"
	}
	return []string{arr(100), arr(300), obj(70), "[" + arr(70) + "," + arr(3) + ",{\"a\":" + arr(40) + "}]"}
}

// wideDocs: concrete documents that are wide in containers (more than 5 container-valued members, more than 64 keys).
func wideDocs() []string {
	var objs, arrs, keys []string
	for i := 0; i < 8; i++ {
		objs = append(objs, fmt.Sprintf("\"m%d\":{\"v\":%d,\"a\":{\"v\":%d}}", i, i, 10+i))
		arrs = append(arrs, fmt.Sprintf("[%d,{\"v\":%d}]", i, 20+i))
	}
	for i := 0; i < 70; i++ {
		keys = append(keys, fmt.Sprintf("\"k%02d\":%d", (i*37)%70, i))
	}
	return []string{"{" + strings.Join(objs, ",") + "}", "[" + strings.Join(arrs, ",") + "]",
		"{\"a\":{" + strings.Join(objs, ",") + "},\"b\":[" + strings.Join(arrs, ",") + "]}", "{" + strings.Join(keys, ",") + "}"}
}

// wideDocJobs: reference-evaluator comparison (zzH_Eval, C01 assertions) on the wide concrete documents.
func wideDocJobs(prefix string, tier string, rng *rand.Rand) []*engine.Job {
	var jobs []*engine.Job
	vsteps := []Step{st(".v", "(name v)", "name", false), st(".a", "(name a)", "name", false), {Text: "..v", Ast: "(desc (name v))", Kind: "desc", Multi: true, Depth: 2},
		st(".*", "(wild)", "wild", true), {Text: "..*", Ast: "(desc (wild))", Kind: "desc", Multi: true, Depth: 2}, st("[*]", "(wild)", "wild", true),
		{Text: "..[0]", Ast: "(desc (union (i 0)))", Kind: "desc", Multi: true, Depth: 2}, st("[1:]", "(union (s 1 _ _))", "slice", true),
		filterStep(Expr{Text: "@.v", Ast: "(exists (cur (name v)))"}), {Text: "..[?(@.v)]", Ast: "(desc (filter (exists (cur (name v)))))", Kind: "desc", Multi: true, Depth: 2},
		st(".b", "(name b)", "name", false), st("[-1]", "(union (i -1))", "index", false)}
	var ps []Path
	for _, a := range vsteps {
		ps = append(ps, mkPath(a))
		for _, b := range vsteps {
			ps = append(ps, mkPath(a, b))
		}
	}
	ps = dedupPaths(ps)
	n := 0
	for _, p := range ps {
		for _, d := range wideDocs() {
			jobs = append(jobs, &engine.Job{ID: fmt.Sprintf("%s-%d", prefix, n), Harness: "zzH_Eval", Fuel: 60_000_000,
				Params: map[string]string{"path": p.Text, "ast": p.Ast, "holes": "", "config": "", "checks": "C01", "infilter": "0", "json": d}})
			n++
		}
	}
	return jobs
}

func bigDocPaths(tier string, rng *rand.Rand) []Path {
	sp := stepPaths(tier, rng)
	one := pathsWith(sp, func(p Path) bool { return nSteps(p) == 1 && p.Holes == "" })
	two := samplePaths(pathsWith(sp, func(p Path) bool { return nSteps(p) == 2 && p.Holes == "" }), tierN(tier, 40, 400), rng)
	return dedupPaths(append(append(one, two...), widePaths()...))
}

func smallDoc(p Path) *engine.DocCfg {
	d := p.Depth
	if d > 2 {
		d = 2
	}
	if d < 1 {
		d = 1
	}
	c := docCfg(d, 2, []string{"a", "b"}, jsonScalars)
	if d == 2 {
		c.MaxLenAt = map[int]int{1: 1}
	}
	return c
}

func tinyDoc(p Path) *engine.DocCfg {
	d := p.Depth
	if d > 2 {
		d = 2
	}
	if d < 1 {
		d = 1
	}
	c := docCfg(d, 1, []string{"a"}, engine.KNil|engine.KFloat|engine.KString)
	return c
}

func init() {
	stateStubs := append([]string{
		"sync.Pool: explicit free list; Get reuses the most recently Put object (LIFO) or calls New; jobs marked pool=any fork over every pooled object and New; Put poisons the pooled object (a later read of it is a discipline violation)",
		"sync.Mutex: lock state; every heap write is tagged with the lock state and with ownership through Pool.Get",
	}, commonStubs...)

	register(&CheckDef{
		ID:        "C07",
		Level:     "model_checking",
		Technique: "bounded symbolic execution with map iteration order as an explicit nondeterministic choice: every permutation at every range site (getSortedKeys unit harness; wildcard/filter/recursive traversal vs. the reference order), pooled key slices reused dirty",
		Jobs: func(tier string, seed int64) []*engine.Job {
			rng := rand.New(rand.NewSource(seed + 7))
			var jobs []*engine.Job
			for _, pool := range []string{"lifo", "fresh"} {
				for lo := 0; lo < 128; lo += 8 {
					jobs = append(jobs, &engine.Job{ID: fmt.Sprintf("c07keys-%s-%d", pool, lo), Harness: "zzH_C07_keys", MapOrder: "perm", PoolMode: pool,
						Params: map[string]string{"minmask": fmt.Sprint(lo), "maxmask": fmt.Sprint(lo + 7), "maxsize": fmt.Sprint(tierN(tier, 4, 6))}, MaxPaths: 2000000})
				}
			}
			// traversal: paths with wildcard / filter / recursive steps, all permutations
			sp := stepPaths(tier, rng)
			trav := pathsWith(sp, func(p Path) bool {
				if nSteps(p) == 0 || nSteps(p) > 2 {
					return false
				}
				for _, s := range p.Steps {
					switch s.Kind {
					case "wild", "desc", "filter", "multi", "multimix":
						return true
					}
				}
				return false
			})
			trav = samplePaths(trav, tierN(tier, 90, 1500), rng)
			jobs = append(jobs, wideDocJobs("c07wide", tier, rng)...)
			jobs = append(jobs, longArrayJobs("c07long", "C01", "")...)
			for i, p := range trav {
				d := p.Depth
				if d > 2 {
					d = 2
				}
				cfg := docCfg(d, 1, []string{"b", "a", "c"}, engine.KNil|engine.KFloat)
				cfg.RootKinds = engine.KMap
				cfg.KeysAt = map[int][]string{1: {"b", "a"}}
				narrow := docCfg(d, 1, []string{"b", "a"}, engine.KNil|engine.KFloat)
				narrow.RootKinds = engine.KMap
				jobs = append(jobs, &engine.Job{ID: fmt.Sprintf("c07trav-%d", i), Harness: "zzH_Eval", MapOrder: "perm",
					Params: map[string]string{"path": p.Text, "ast": p.Ast, "holes": p.Holes, "config": "", "checks": "C01", "infilter": "0"},
					Docs:   map[string]*engine.DocCfg{"doc": cfg}, Budget: tierN(tier, 30000, 300000),
					Narrow: []map[string]*engine.DocCfg{{"doc": narrow}}})
			}
			return jobs
		},
		Bounds: func(tier string) map[string]interface{} {
			return map[string]interface{}{"unit": fmt.Sprintf("getSortedKeys on every subset of size <= %d of the keys {\"\", a, B, ab, aa, é, z}; every iteration permutation; pooled slice dirty with 0/2/4/6 stale keys; pool LIFO and always-fresh", tierN(tier, 4, 5)),
				"wide documents": "12 step kinds (1- and 2-step paths) on four concrete documents with 8 container-valued members per object/array and with 70 keys, compared with the reference order (map iteration descending)", "traversal": "root objects over keys {a,b,c} (nested objects over {a,b}), every permutation at every range site (<= 720 per site)"}
		},
		Stubs:        stateStubs,
		Assumptions:  append([]string{"sort.StringSlice.Sort sorts byte-wise (host sort on concrete keys)"}, commonAssumptions...),
		ExpectLabels: []string{"sorted-keys-order", "nested-sorted-keys", "outer-slice-undisturbed", "result-value"},
	})

	register(&CheckDef{
		ID:        "C05",
		Level:     "model_checking",
		Technique: "bounded symbolic execution with an explicit heap: per call a frame condition on the parsed tree, poisoning of pooled buffers, ownership of the result slice (one inductive step from the post-Parse state), plus explicit call histories of length 2-3 on independent symbolic documents compared with fresh Retrieve calls",
		Jobs: func(tier string, seed int64) []*engine.Job {
			rng := rand.New(rand.NewSource(seed + 5))
			var jobs []*engine.Job
			for i, p := range statePaths(tier, rng) {
				cfg := ""
				if p.Funcs {
					cfg = "funcs"
				}
				hist := 2
				pool := "lifo"
				if i%5 == 4 {
					pool = "fresh"
				}
				d := tinyDoc(p)
				if i%3 == 0 {
					d = smallDoc(p)
					hist = 1
				}
				docs := map[string]*engine.DocCfg{"doc1": d, "doc2": d, "doc3": d}
				if hist == 2 && len(p.Steps) > 0 && (p.Steps[0].Kind == "slice" || p.Steps[0].Kind == "union" || p.Steps[0].Kind == "index") {
					// array-oriented paths: the later document is a longer array, so that state left
					// behind by a call on a short one (e.g. a clamped step) shows in the result
					d1 := docCfg(d.Depth, 1, []string{"a"}, engine.KNil|engine.KFloat)
					d1.RootKinds = engine.KArray
					d2 := docCfg(d.Depth, 3, []string{"a"}, engine.KNil|engine.KFloat)
					d2.RootKinds = engine.KArray
					d2.MinLen = 2
					if d.Depth == 2 {
						d1.MaxLenAt = map[int]int{1: 1}
						d2.MaxLenAt = map[int]int{1: 1}
					}
					docs["doc1"], docs["doc2"] = d1, d2
				}
				scribble := "0"
				if i%4 == 1 {
					scribble = "1"
				}
				jobs = append(jobs, &engine.Job{ID: fmt.Sprintf("c05-%d", i), Harness: "zzH_C05", PoolMode: pool,
					Params: map[string]string{"path": p.Text, "holes": p.Holes, "config": cfg, "history": fmt.Sprint(hist), "recycle": fmt.Sprint(i % 2), "scribble": scribble, "mutate": "0"},
					Docs:   docs, MaxPaths: 400000, TimeLimit: 4 * time.Minute})
				if i%3 == 2 {
					// the same document object, updated in place between two calls
					dm := smallDoc(p)
					jobs = append(jobs, &engine.Job{ID: fmt.Sprintf("c05mut-%d", i), Harness: "zzH_C05", PoolMode: pool,
						Params: map[string]string{"path": p.Text, "holes": p.Holes, "config": cfg, "history": "2", "recycle": "0", "scribble": "0", "mutate": "1"},
						Docs:   map[string]*engine.DocCfg{"doc1": dm}, MaxPaths: 400000, TimeLimit: 4 * time.Minute})
				}
			}
			// a user function may return the very list it was given: the memory the
			// library hands to user code ends up in a result the caller owns
			for i, p := range returnedArgumentPaths() {
				for r := 0; r < 2; r++ {
					d := docCfg(2, 2, []string{"a", "b"}, engine.KNil|engine.KFloat|engine.KString)
					d.MaxLenAt = map[int]int{1: 1}
					d.KeysAt = map[int][]string{1: {"a"}}
					jobs = append(jobs, &engine.Job{ID: fmt.Sprintf("c05ret-%d-%d", i, r), Harness: "zzH_C05", PoolMode: "lifo",
						Params: map[string]string{"path": p.Text, "holes": "", "config": "funcs", "history": "2", "recycle": fmt.Sprint(r), "scribble": "0", "mutate": "0"},
						Docs:   map[string]*engine.DocCfg{"doc1": d, "doc2": d}, MaxPaths: 400000, TimeLimit: 4 * time.Minute})
				}
			}
			jobs = append(jobs, preboomJobs("c05boom", tier, rng)...)
			bi := 0
			for _, p := range bigDocPaths(tier, rng) {
				for _, d := range bigDocs() {
					cfg := ""
					if p.Funcs {
						cfg = "funcs"
					}
					jobs = append(jobs, &engine.Job{ID: fmt.Sprintf("c05big-%d", bi), Harness: "zzH_C05", Fuel: 60_000_000,
						Params: map[string]string{"path": p.Text, "holes": "", "config": cfg, "history": "2", "recycle": "1", "scribble": "0", "mutate": "0", "json": d}})
					bi++
				}
			}
			return jobs
		},
		Bounds: func(tier string) map[string]interface{} {
			return map[string]interface{}{"in-place": "for a third of the paths, two calls on the same document object whose members are rotated in place between the calls", "histories": "1 call on Doc(<=2 levels, arrays 0..2, keys {a,b}) or 2 calls on independent Doc(<=2 levels, arrays 0..1, key {a}, leaves null/float64/string); optional unrelated Retrieve between calls; optional scribbling over the returned slice",
				"induction": "longer histories are covered only through the per-call obligations (tree unchanged, no read of recycled buffers, fresh result slice), which make every call start from an equivalent state",
				"pool":      "LIFO reuse and always-fresh"}
		},
		Stubs:        stateStubs,
		Assumptions:  commonAssumptions,
		ExpectLabels: []string{"parsed-tree-unchanged", "no-use-of-recycled-buffer", "result-slice-is-fresh", "same-outcome-as-fresh-retrieve", "same-values-as-fresh-retrieve", "earlier-result-unchanged"},
		Confirm:      stressConfirm,
	})

	register(&CheckDef{
		ID:        "C06",
		Level:     "model_checking",
		Technique: "solver-backed bounded symbolic execution of a sufficient condition: access sets tagged with lock state and pool ownership show that calls are conflict-free (shared writes only under parseMutex, evaluation writes only memory it owns, mutex released on every exit, parsed functions share no mutable state with the global parser), hence data-race free and serialisable; schedules are not enumerated; candidates are confirmed natively with goroutines under -race",
		Jobs: func(tier string, seed int64) []*engine.Job {
			rng := rand.New(rand.NewSource(seed + 6))
			var jobs []*engine.Job
			ps := statePaths(tier, rng)
			for i, p := range ps {
				cfg := ""
				if p.Funcs {
					cfg = "funcs"
				}
				jobs = append(jobs, &engine.Job{ID: fmt.Sprintf("c06e-%d", i), Harness: "zzH_C06_eval",
					Params: map[string]string{"path": p.Text, "holes": p.Holes, "config": cfg},
					Docs:   map[string]*engine.DocCfg{"doc": smallDoc(p)}, MaxPaths: 400000})
				jobs = append(jobs, &engine.Job{ID: fmt.Sprintf("c06p-%d", i), Harness: "zzH_C06_parse",
					Params: map[string]string{"path": p.Text, "holes": p.Holes, "config": cfg}})
			}
			bi := 0
			for _, p := range bigDocPaths(tier, rng) {
				for _, d := range bigDocs() {
					cfg := ""
					if p.Funcs {
						cfg = "funcs"
					}
					jobs = append(jobs, &engine.Job{ID: fmt.Sprintf("c06big-%d", bi), Harness: "zzH_C06_eval", Fuel: 40_000_000,
						Params: map[string]string{"path": p.Text, "holes": "", "config": cfg, "json": d}})
					bi++
				}
			}
			for i, bad := range badPaths() {
				jobs = append(jobs, &engine.Job{ID: fmt.Sprintf("c06bad-%d", i), Harness: "zzH_C06_parse",
					Params: map[string]string{"path": bad, "holes": "", "config": "funcs"}})
			}
			return jobs
		},
		Bounds: func(tier string) map[string]interface{} {
			return map[string]interface{}{"calls": "one Parse (valid corpus paths and paths failing at every action kind) and one evaluation per corpus path on Doc(<=2 levels, arrays 0..2, keys {a,b})",
				"large documents": "additionally every 1-step and sampled 2-step corpus path on four concrete documents beyond the symbolic bounds (arrays of 100 and 300 elements, an object with 72 members, nested arrays of 70 and 40)", "argument": "conflict-freedom of every single call => any interleaving is equivalent to a sequential order; std sync.Mutex, sync.Pool and regexp are trusted to be goroutine-safe"}
		},
		Stubs:        stateStubs,
		Assumptions:  append([]string{"schedules are not enumerated: the check proves conflict-freedom per call, a sufficient condition", "sync.Mutex, sync.Pool, regexp.Regexp are goroutine-safe"}, commonAssumptions...),
		ExpectLabels: []string{"evaluation-writes-only-owned-memory", "parse-writes-shared-state-only-under-mutex", "mutex-free", "parser-state-reset", "parsed-function-shares-no-mutable-state"},
		Confirm:      stressConfirm,
		Race:         false,
	})

	register(&CheckDef{
		ID:        "C19",
		Level:     "model_checking",
		Technique: "bounded symbolic execution of Parse histories: post-state invariant (parser state zero, mutex free) after every call including failing ones, and differential comparison of a call made after a history with the same call made first, by error value and by behaviour on a symbolic document",
		Jobs: func(tier string, seed int64) []*engine.Job {
			rng := rand.New(rand.NewSource(seed + 19))
			var jobs []*engine.Job
			valid := statePaths(tier, rng)
			bad := badPaths()
			cfgs := []string{"", "funcs", "funcs2", "accessor", "funcs+accessor", "empty"}
			n := tierN(tier, 3000, 20000)
			for i := 0; i < n; i++ {
				var target string
				holes := ""
				tp := Path{Depth: 1}
				if i%4 == 3 {
					target = bad[rng.Intn(len(bad))]
				} else {
					tp = valid[rng.Intn(len(valid))]
					target, holes = tp.Text, tp.Holes
				}
				hl := 1 + rng.Intn(tierN(tier, 3, 5))
				hist := ""
				for k := 0; k < hl; k++ {
					var hp string
					if rng.Intn(2) == 0 {
						hp = bad[rng.Intn(len(bad))]
					} else {
						q := valid[rng.Intn(len(valid))]
						if q.Holes != "" {
							k--
							continue
						}
						hp = q.Text
					}
					hist += cfgs[rng.Intn(len(cfgs))] + "\t" + hp + "\n"
				}
				jobs = append(jobs, &engine.Job{ID: fmt.Sprintf("c19-%d", i), Harness: "zzH_C19",
					Params: map[string]string{"path": target, "holes": holes, "config": cfgs[rng.Intn(len(cfgs))], "history": hist},
					Docs:   map[string]*engine.DocCfg{"doc": tinyDoc(tp)}, MaxPaths: 200000})
			}
			// the same path parsed first under another configuration (caches keyed by the path alone)
			var fnPaths []string
			for _, b := range bad {
				fnPaths = append(fnPaths, b)
			}
			fnPaths = append(fnPaths, "$.f().a", "$.f()[", "$.a.f() x", "$.agg()[0]", "$.f()", "$.a.agg()", "$.*.f().g()", "$[?(@.f() == 1)]", "$[?(@.a.f() == 1", "$.a.g()]", "$.aggfail().f()[(1)]", "$.unknown().f()", "$.f().unknown()", "$.a", "$[0]")
			k := 0
			for _, fp := range fnPaths {
				for _, c1 := range cfgs {
					for _, c2 := range cfgs {
						if c1 == c2 {
							continue
						}
						jobs = append(jobs, &engine.Job{ID: fmt.Sprintf("c19x-%d", k), Harness: "zzH_C19",
							Params: map[string]string{"path": fp, "holes": "", "config": c1, "history": c2 + "\t" + fp + "\n"},
							Docs:   map[string]*engine.DocCfg{"doc": tinyDoc(Path{Depth: 1})}, MaxPaths: 200000})
						k++
					}
				}
			}
			// after a history, a parsed function still behaves per the reference semantics
			special := []string{"$[?(@.a == \"'a\")]", "$[?(@.b == '\"b')]", "$[?(@.a == \"'b\")]", "$[?(@.a == 'a')]", "$[?(@.a == \"a\")]", "$['\\'a']", "$[\"a\"]", "$['a']", "$.a", "$['b']",
				"$[?(@.a =~ /'a/)]", "$[\"'a\"]", "$['\"a']", "$.b", "$[?(@.a == 7.5e1)]", "$[7001]", "$[?(@.a == 'x')]", "$[?(@.a == \"x\")]"}
			var targets []Path
			for _, p := range valid {
				if nSteps(p) >= 1 && nSteps(p) <= 2 {
					targets = append(targets, p)
				}
			}
			for i := 0; i < tierN(tier, 500, 5000); i++ {
				tp := targets[rng.Intn(len(targets))]
				hist := ""
				for k := 0; k < 1+rng.Intn(2); k++ {
					hist += cfgs[rng.Intn(2)] + "\t" + special[rng.Intn(len(special))] + "\n"
				}
				if rng.Intn(3) == 0 {
					hist += "\t" + bad[rng.Intn(len(bad))] + "\n"
				}
				cfg := ""
				if tp.Funcs {
					cfg = "funcs"
				}
				jobs = append(jobs, &engine.Job{ID: fmt.Sprintf("c19s-%d", i), Harness: "zzH_C19_spec",
					Params: map[string]string{"path": tp.Text, "ast": tp.Ast, "holes": tp.Holes, "config": cfg, "checks": "C01", "infilter": inFilterFlag(tp), "history": hist},
					Docs:   map[string]*engine.DocCfg{"doc": smallDoc(tp)}, MaxPaths: 200000})
			}
			// one Config object used by several calls; an earlier call passed it together with a second Config
			// (only the first Config of a call counts, and a call never writes into the caller's Config)
			k = 0
			for _, target := range []string{"$.onlyb()", "$.a.onlyagg()", "$.f()", "$.a", "$.*.agg()", "$.unknown()"} {
				for _, hp := range []string{"$.a", "$.onlyb()", "$.a.onlyagg()", "$.a[", "$.f().onlyb()", "$.unknown()"} {
					for _, first := range []string{"shared+extra", "shared"} {
						hist := first + "\t" + hp + "\n"
						if first == "shared" {
							hist = "shared+extra\t" + hp + "\nshared\t$.a\n"
						}
						jobs = append(jobs, &engine.Job{ID: fmt.Sprintf("c19pair-%d", k), Harness: "zzH_C19",
							Params: map[string]string{"path": target, "holes": "", "config": "shared", "history": hist},
							Docs:   map[string]*engine.DocCfg{"doc": tinyDoc(Path{Depth: 1})}, MaxPaths: 200000})
						k++
					}
				}
			}
			jobs = append(jobs, preboomJobs("c19boom", tier, rng)...)
			return jobs
		},
		Bounds: func(tier string) map[string]interface{} {
			return map[string]interface{}{"histories": fmt.Sprintf("1..%d earlier Parse calls (valid corpus paths and paths failing at each action kind: bad integer, bad float, unknown function, script, value-group comparison, two @ operands, trailing garbage, bad regex, bad escape) under 6 configurations (none, functions, other functions with the same names, accessor, both, empty)", tierN(tier, 2, 4)),
				"induction": "every call is shown to leave the parser state zero and the mutex free, so longer histories reduce to these"}
		},
		Stubs:        stateStubs,
		Assumptions:  commonAssumptions,
		ExpectLabels: []string{"same-outcome-as-fresh-process", "reparse-uses-the-current-config", "parser-state-reset", "mutex-free", "same-parse-outcome", "same-parse-error", "same-behaviour", "same-functions-called", "accessor-mode-of-this-config-only"},
	})
}

// badPaths: one or more paths failing at each action kind of the parser.
func badPaths() []string {
	return []string{
		"$[99999999999999999999]",       // bad integer (Atoi range)
		"$[1:99999999999999999999]",     // bad integer inside a slice
		"$[?(@.a == 1e999)]",            // bad float
		"$[?(@.a == 1.2.3)]",            // bad float syntax
		"$.unknown()",                   // unknown function
		"$.a.nofn().f()",                // unknown function before a known one
		"$[(@.length-1)]",               // script
		"$[?(@.* == 1)]",                // value group in comparison
		"$[?(@.a == @.b)]",              // two current nodes
		"$.a[",                          // trailing garbage
		"$.a b",                         // trailing garbage
		"",                              // empty
		"$[?(@.a =~ /(/)]",              // bad regex
		"$['\\u12']",                    // bad escape (hex)
		"$[\"\\x\"]",                    // bad escape
		"$[?(@.a == 'x' && )]",          // incomplete filter
		"$[?($..a == 1)]",               // value group ($-rooted)
		"$.f().a",                       // step after function
		"$[?(@.f().unknown() == 1)]",    // unknown function in filter
		"$[0,1:99999999999999999999:2]", // bad integer in union
	}
}

// preboomJobs: the reference-evaluator comparison (C01 assertions) of a path evaluated right after an
// evaluation that a panicking user function aborted half-way and the caller recovered from.
func preboomJobs(prefix string, tier string, rng *rand.Rand) []*engine.Job {
	sp := stepPaths(tier, rng)
	ps := pathsWith(sp, func(p Path) bool { return nSteps(p) == 1 })
	ps = append(ps, samplePaths(pathsWith(sp, func(p Path) bool { return nSteps(p) == 2 && p.Holes == "" }), 20, rng)...)
	ps = append(ps, samplePaths(filterPaths(tier, rng), 20, rng)...)
	ps = append(ps, samplePaths(funcPathsCore(tier), 15, rng)...)
	var jobs []*engine.Job
	for i, p := range dedupPaths(ps) {
		cfg := ""
		if p.Funcs {
			cfg = "funcs"
		}
		jobs = append(jobs, &engine.Job{ID: fmt.Sprintf("%s-%d", prefix, i), Harness: "zzH_Eval",
			Params: map[string]string{"path": p.Text, "ast": p.Ast, "holes": p.Holes, "config": cfg, "checks": "C01", "infilter": inFilterFlag(p), "preboom": "1"},
			Docs:   map[string]*engine.DocCfg{"doc": smallDoc(p)}, Budget: 5000})
	}
	return jobs
}
