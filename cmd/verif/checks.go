package main

import (
	"fmt"
	"sort"

	"verif/engine"
)

var checks = map[string]*CheckDef{}

func register(d *CheckDef) { checks[d.ID] = d }

func cmdCheck(id string, flags map[string]string) int {
	d, ok := checks[id]
	if !ok {
		var ids []string
		for k := range checks {
			ids = append(ids, k)
		}
		sort.Strings(ids)
		fmt.Printf("unknown check %q; available: %v\n", id, ids)
		return 2
	}
	return runCheck(d, flags)
}

var commonStubs = []string{
	"strconv.Atoi: host on concrete text; a registered numeral hole returns its symbolic int64",
	"strconv.ParseFloat: host on concrete text; a registered hole returns its symbolic finite float64",
	"regexp.Compile/MustCompile/MatchString/ReplaceAllStringFunc/FindStringSubmatch: host regexp on concrete strings; MatchString on an abstract string is an uninterpreted predicate",
	"encoding/json.Unmarshal (into *string): host on concrete bytes",
	"reflect.TypeOf(...).String(): type name of the bound kind; reflect.DeepEqual: structural model",
	"sync.Mutex: lock-state tracking; sync.Pool: explicit free list (LIFO reuse unless stated)",
	"sort.StringSlice.Sort: host sort on concrete keys",
	"fmt.Sprintf/errors.New: host on concrete arguments",
	"map range order: descending key order unless the check says 'perm'",
}

var commonAssumptions = []string{
	"go/ssa (x/tools v0.29.0) faithfully represents the package; the engine's instruction semantics are validated against the native build on the repository's own 1146 function-free suite pairs (selftest) and on the witnesses of every run",
	"z3 4.8.12 answers are trusted (cross-checked with z3-new/cvc5 by `verif solverdiff` in thorough tiers where stated)",
	"everything outside the stated bounds is outside the claim",
}

func docCfg(depth, maxLen int, keys []string, scalars uint32) *engine.DocCfg {
	return &engine.DocCfg{Depth: depth, MaxLen: maxLen, Keys: keys, Scalars: scalars}
}

const jsonScalars = engine.KNil | engine.KBool | engine.KFloat | engine.KString
