package main

import (
	"fmt"
	"math/rand"
	"strings"

	"verif/engine"
)

// stepSpellings returns alternative spellings of one step that the grammar
// declares equivalent.
func stepSpellings(s Step) []string {
	switch s.Text {
	case ".a":
		return []string{"['a']", "[\"a\"]", "[ 'a' ]", "[  \"a\"  ]"}
	case ".b":
		return []string{"['b']", "[\"b\"]", "[ 'b']"}
	case "['b']":
		return []string{".b", "[\"b\"]", "[ 'b' ]"}
	case "[\"a\"]":
		return []string{".a", "['a']"}
	case "['a','b']":
		return []string{"[\"a\",\"b\"]", "[ 'a' , 'b' ]", "['a',\"b\"]", "['a'  ,'b' ]"}
	case "['b','a']":
		return []string{"[\"b\",'a']", "[ 'b','a' ]"}
	case "['a','a']":
		return []string{"[\"a\" , 'a']"}
	case "[*,*]":
		return []string{"[ * , * ]", "[*, *]"}
	case "['a',*]":
		return []string{"[\"a\" , *]", "[ 'a',* ]"}
	case ".*":
		return []string{"[*]", "[ * ]"}
	case "[*]":
		return []string{".*", "[ *]"}
	case "[0]":
		return []string{"[+0]", "[00]", "[ 0 ]", "[-0]", "[ +000 ]", "[0000000000000000000000000]", "[-000000000000000000000000]"}
	case "[1]":
		return []string{"[+1]", "[01]", "[ 1 ]", "[+000000000000000000000001]"}
	case "[-1]":
		return []string{"[ -1 ]", "[-01]", "[-001 ]"}
	case "[7001]":
		return []string{"[ 7001 ]", "[7001 ]"}
	case "[1,0]":
		return []string{"[1 , 0]", "[ 1,0 ]", "[+1,00]", "[01 ,+0 ]"}
	case "[0,0]":
		return []string{"[0 ,0]", "[+0,-0]"}
	case "[*,0]":
		return []string{"[ * , 0 ]", "[*,+0]"}
	case "[0,1:2]":
		return []string{"[0 , 1 : 2]", "[+0,01:+2]", "[0,1:2:1]", "[0,1:2:]"}
	case "[1:]":
		return []string{"[1 :]", "[ 1: ]", "[01:]", "[1::]", "[1: :]", "[+1::1]", "[1 : : +1 ]", "[0000000000000000000001::00000000000000000000001]"}
	case "[0:2]":
		return []string{"[0 : 2]", "[:2]", "[+0:02:1]", "[ :2: ]"}
	case "[::-1]":
		return []string{"[ : : -1 ]", "[::-01]", "[: :-1]"}
	case "[::2]":
		return []string{"[: : 2]", "[::+2]", "[ ::02 ]"}
	case "[7002:7003]":
		return []string{"[ 7002 : 7003 ]", "[7002:7003:]", "[7002 :7003:1]"}
	case "..a":
		return []string{"..['a']", "..[\"a\"]", "..[ 'a' ]"}
	case "..*":
		return []string{"..[*]", "..[ * ]"}
	case "..[*]":
		return []string{"..*"}
	case "..['a','b']":
		return []string{"..[\"a\" , 'b']", "..[ 'a','b' ]"}
	case "..[0]":
		return []string{"..[+0]", "..[ 00 ]"}
	case "..[0,1]":
		return []string{"..[ 0 , 1 ]", "..[+0,01]"}
	case "..[0:1]":
		return []string{"..[:1]", "..[ 0 : 1 : 1 ]"}
	case "..[*,*]":
		return []string{"..[ *,* ]"}
	}
	if s.Kind == "filter" || (s.Kind == "desc" && strings.Contains(s.Text, "?(")) {
		return filterSpellings(s.Text)
	}
	return nil
}

func filterSpellings(t string) []string {
	var out []string
	add := func(x string) {
		if x != t {
			out = append(out, x)
		}
	}
	// spaces inside the brackets and parentheses
	add(strings.Replace(strings.Replace(t, "[?(", "[ ?( ", 1), ")]", " ) ]", 1))
	// spaces inside every pair of parentheses of the expression
	if strings.Count(strings.ReplaceAll(t, "()", ""), "(") > 1 {
		// (the `()` of a function call is a token of its own, not a parenthesis pair)
		protect := func(s string) string { return strings.ReplaceAll(s, "()", "\x00") }
		restore := func(s string) string { return strings.ReplaceAll(s, "\x00", "()") }
		inner := protect(t[3 : len(t)-2])
		inner = strings.ReplaceAll(strings.ReplaceAll(inner, "(", "( "), ")", " )")
		add("[?(" + restore(inner) + ")]")
		inner2 := protect(t[3 : len(t)-2])
		inner2 = strings.ReplaceAll(strings.ReplaceAll(inner2, "(", "(  "), ")", "  )")
		add("[?(" + restore(inner2) + ")]")
	}
	// spaces around operators removed
	x := t
	for _, op := range []string{"==", "!=", "<=", ">=", "&&", "||", "=~"} {
		x = strings.ReplaceAll(x, " "+op+" ", op)
	}
	x = strings.ReplaceAll(x, " < ", "<")
	x = strings.ReplaceAll(x, " > ", ">")
	add(x)
	// double spaces around operators
	y := t
	for _, op := range []string{"==", "!=", "<=", ">=", "&&", "||", "=~"} {
		y = strings.ReplaceAll(y, " "+op+" ", "  "+op+"  ")
	}
	add(y)
	// quote style of string literals
	add(strings.ReplaceAll(t, "'x'", "\"x\""))
	add(strings.ReplaceAll(t, "\"y\"", "'y'"))
	// `!` followed by a space
	add(strings.ReplaceAll(t, "!@", "! @"))
	add(strings.ReplaceAll(t, "!$", "!  $"))
	// dot vs bracket inside operands
	add(replaceName(t, "@.a", "@['a']"))
	add(replaceName(t, "$.b", "$[\"b\"]"))
	add(strings.ReplaceAll(t, "@[0]", "@[ +0 ]"))
	// literal spellings
	add(strings.ReplaceAll(t, "true", "TRUE"))
	add(strings.ReplaceAll(t, "false", "False"))
	add(strings.ReplaceAll(t, "null", "Null"))
	return out
}

// c18Variants renders a corpus path in alternative spellings.
func c18Variants(p Path, rng *rand.Rand, max int) []string {
	var out []string
	seen := map[string]bool{p.Text: true}
	emit := func(t string) {
		if !seen[t] {
			seen[t] = true
			out = append(out, t)
		}
	}
	render := func(pick func(i int, s Step) string) string {
		t := "$"
		for i, s := range p.Steps {
			t += pick(i, s)
		}
		return t
	}
	// one step at a time: every alternative of every step
	for i, s := range p.Steps {
		for _, alt := range stepSpellings(s) {
			emit(render(func(j int, x Step) string {
				if j == i {
					return alt
				}
				return x.Text
			}))
		}
	}
	// random combinations
	for k := 0; k < 3; k++ {
		emit(render(func(j int, x Step) string {
			alts := stepSpellings(x)
			if len(alts) == 0 || rng.Intn(3) == 0 {
				return x.Text
			}
			return alts[rng.Intn(len(alts))]
		}))
	}
	// leading / trailing spaces, omitted `$`
	emit(" " + p.Text)
	emit(p.Text + "  ")
	if len(p.Steps) > 0 && p.Steps[0].Kind != "func" && p.Steps[0].Kind != "agg" {
		// (a function is not a name: `f()` without `$.` is not a spelling the grammar offers)
		first := p.Steps[0]
		switch {
		case strings.HasPrefix(first.Text, "."):
			if !strings.HasPrefix(first.Text, "..") {
				emit(strings.TrimPrefix(p.Text, "$."))
			}
		case strings.HasPrefix(first.Text, "["):
			emit(strings.TrimPrefix(p.Text, "$"))
			emit("  " + strings.TrimPrefix(p.Text, "$"))
		}
	}
	if len(out) > max {
		rng.Shuffle(len(out), func(i, j int) { out[i], out[j] = out[j], out[i] })
		out = out[:max]
	}
	return out
}

func init() {
	register(&CheckDef{
		ID:        "C18",
		Level:     "model_checking",
		Technique: "relational bounded symbolic execution: two spellings of one path are parsed by the real (interpreted) PEG parser and evaluated on one lazy symbolic document; equality of results / error kind and failing step decided per path",
		Jobs: func(tier string, seed int64) []*engine.Job {
			rng := rand.New(rand.NewSource(seed + 18))
			sp := stepPaths(tier, rng)
			one2 := samplePaths(pathsWith(sp, func(p Path) bool { return nSteps(p) >= 1 && nSteps(p) <= 2 }), tierN(tier, 260, 3000), rng)
			three := samplePaths(pathsWith(sp, func(p Path) bool { return nSteps(p) == 3 }), tierN(tier, 60, 1500), rng)
			fl := samplePaths(filterPaths(tier, rng), tierN(tier, 150, 3000), rng)
			fn := samplePaths(funcPaths(tier, rng), tierN(tier, 40, 600), rng)
			var jobs []*engine.Job
			n := 0
			for _, p := range dedupPaths(append(append(append(one2, three...), fl...), fn...)) {
				cfg := ""
				if p.Funcs {
					cfg = "funcs"
				}
				for _, alt := range c18Variants(p, rng, tierN(tier, 3, 6)) {
					jobs = append(jobs, relJob(fmt.Sprintf("c18-%d", n), "zzH_C18",
						map[string]string{"path": p.Text, "alt": alt, "holes": p.Holes, "config": cfg, "holepos": "", "altpos": ""}, p, tier))
					n++
				}
			}
			// quote style with a free byte inside the name: `$['aXb']` vs `$["aXb"]`, X any ASCII byte but quotes/backslash
			for i, q := range []struct{ a, b, pa, pb, ast string }{
				{"$['aXb']", "$[\"aXb\"]", "4", "4", "(path (name aXb))"},
				{"$.k['X']", "$.k[\"X\"]", "5", "5", "(path (name k) (name X))"},
				{"$..['aX']", "$..[\"aX\"]", "6", "6", "(path (desc (name aX)))"},
				{"$['X','b']", "$[\"X\",'b']", "3", "3", "(path (multi (n X) (n b)))"},
				{"$[?(@['X'] == 1)]", "$[?(@[\"X\"] == 1)]", "7", "7", "(path)"},
			} {
				p := Path{Depth: 2}
				jobs = append(jobs, relJob(fmt.Sprintf("c18q-%d", i), "zzH_C18",
					map[string]string{"path": q.a, "alt": q.b, "holes": "", "config": "", "holepos": q.pa, "altpos": q.pb}, p, tier))
			}
			return jobs
		},
		Bounds:       evalBounds,
		Stubs:        commonStubs,
		Assumptions:  append([]string{"spelling alternatives are produced per step from a table of the grammar's insignificant choices (spaces, quote style, sign and leading zeros, .* vs [*], .name vs ['name'], omitted $, omitted slice parts), 2..6 variants per path"}, commonAssumptions...),
		ExpectLabels: []string{"both-parse-or-both-fail", "same-outcome", "same-values", "same-error-kind", "same-error-step"},
	})
}

// replaceName replaces every occurrence of a dot-name operand head (such as
// `@.a`) that is a whole name - not the beginning of a longer identifier such
// as `@.agg()`.
func replaceName(t, old, new string) string {
	var sb strings.Builder
	for i := 0; i < len(t); {
		if strings.HasPrefix(t[i:], old) {
			j := i + len(old)
			if j >= len(t) || !(t[j] == '_' || t[j] >= '0' && t[j] <= '9' || t[j] >= 'a' && t[j] <= 'z' || t[j] >= 'A' && t[j] <= 'Z' || t[j] >= 0x80) {
				sb.WriteString(new)
				i = j
				continue
			}
		}
		sb.WriteByte(t[i])
		i++
	}
	return sb.String()
}
