package main

import (
	"fmt"
	"math/rand"

	"verif/engine"
)

func init() {
	register(&CheckDef{
		ID:         "C10",
		SolverDiff: true,
		Level:      "model_checking",
		Technique:  "bounded symbolic execution: (a) comparison filters vs. the typed-comparison reference on documents with float64 and with json.Number leaves; (b) relational twin run: the same symbolic document with every number as float64 and as json.Number (numeric value linked by an uninterpreted function) must select the same member positions",
		Jobs: func(tier string, seed int64) []*engine.Job {
			rng := rand.New(rand.NewSource(seed + 10))
			var cmp []Path
			for _, e := range comparisons(tier) {
				cmp = append(cmp, mkPath(filterStep(e)))
			}
			cmp = dedupPaths(cmp)
			a := samplePaths(cmp, tierN(tier, 220, 6000), rng)
			jobs := evalJobs("c10f", a, "C01,C03", tier, false, false)
			jobs = append(jobs, evalJobs("c10n", a, "C01,C03", tier, false, true)...)
			// mixed: float64 and json.Number leaves in one document
			for i, p := range samplePaths(cmp, tierN(tier, 80, 2000), rng) {
				cfg := docCfg(2, 2, []string{"a", "b"}, engine.KNil|engine.KBool|engine.KFloat|engine.KNumber|engine.KString)
				jobs = append(jobs, &engine.Job{ID: fmt.Sprintf("c10m-%d", i), Harness: "zzH_Eval",
					Params: map[string]string{"path": p.Text, "ast": p.Ast, "holes": p.Holes, "config": "", "checks": "C01,C03", "infilter": "0"},
					Docs:   map[string]*engine.DocCfg{"doc": cfg}, MaxPaths: 300000})
			}
			// twin relation
			tw := samplePaths(cmp, tierN(tier, 90, 6000), rng)
			for i, p := range tw {
				expr := p.Steps[0].Text
				expr = expr[3 : len(expr)-2]
				sc := uint32(engine.KNil | engine.KFloat | engine.KString)
				if tier == "thorough" {
					sc |= engine.KBool
				}
				cfg := docCfg(2, tierN(tier, 2, 3), []string{"a", "b"}, sc)
				cfg.RootKinds = engine.KMap | engine.KArray
				cfg.MaxLenAt = map[int]int{1: 1}
				jobs = append(jobs, &engine.Job{ID: fmt.Sprintf("c10t-%d", i), Harness: "zzH_C10_twin",
					Params: map[string]string{"a": expr, "holes": p.Holes}, Docs: map[string]*engine.DocCfg{"doc": cfg}, MaxPaths: 300000})
			}
			return jobs
		},
		Bounds: func(tier string) map[string]interface{} {
			return map[string]interface{}{"filters": "every comparison: 6 operators and =~ x operand kinds {number/string/bool/null literal, @-path, $-path} x both orders",
				"documents": fmt.Sprintf("root array 0..%d or object over {a,b}; members of every JSON kind; leaves float64 or json.Number or both", tierN(tier, 2, 3)),
				"numbers":   "float64 payloads symbolic (all values); json.Number = (spelling identity, numeric value) with value finite; twin run assumes finite, non-negative-zero numbers in shortest formatting (equal spelling <=> equal value)"}
		},
		Stubs: append([]string{"json.Number.Float64: uninterpreted function from the spelling identity to a finite float64"}, commonStubs...),
		Assumptions: append([]string{"negative zero is excluded from the twin relation: json.Number(\"-0\") and json.Number(\"0\") are numerically equal but spelled differently, which the statement's shortest-formatting restriction does not settle"},
			commonAssumptions...),
		ExpectLabels: []string{"fails-iff-spec-selects-nothing", "result-value", "decoding-independent"},
	})
}
