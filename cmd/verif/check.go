package main

import (
	"bufio"
	"crypto/sha1"
	"encoding/json"
	"fmt"
	"math/rand"
	"os"
	"path/filepath"
	"regexp"
	"sort"
	"strconv"
	"strings"
	"time"

	"verif/engine"
)

// CheckDef describes how one property is decided.
type CheckDef struct {
	ID          string
	Level       string
	Jobs        func(tier string, seed int64) []*engine.Job
	Bounds      func(tier string) map[string]interface{}
	Stubs       []string
	Assumptions []string
	// Labels that must be reached at least once (vacuity guard).
	ExpectLabels []string
	// EngineOnly labels are discipline violations observed only inside the
	// engine; Confirm translates them into a native observation.
	Confirm    func(c *candidate, repo, harness string) (bool, string)
	Race       bool
	Technique  string
	SolverDiff bool // thorough tier: replay logged queries on z3-new and cvc5 and compare
	Notes      string
	// Post runs after exploration for checks with extra obligations
	// (e.g. induction lemmas); it returns extra evidence and problems.
	Post func(run *checkRun)
}

type candidate struct {
	Job     *engine.Job
	Path    *engine.PathResult
	Fixture *engine.Fixture
	Labels  []string
	Native  *engine.ReplayResult
	Status  string // confirmed | unconfirmed | known
	Known   *knownFinding
	Replay  string
}

type knownFinding struct {
	Status   string `json:"status"`
	Property string `json:"property"`
	ID       string `json:"id"`
	Label    string `json:"label"`
	Match    struct {
		Harness string `json:"harness"`
		PathRe  string `json:"path_re"`
		Param   string `json:"param"`
	} `json:"match"`
	What    string          `json:"what"`
	Witness json.RawMessage `json:"witness"`
	Commit  string          `json:"commit"`
	re      *regexp.Regexp
}

func loadKnownFindings() []*knownFinding {
	f, err := os.Open(filepath.Join(verifDir(), "known_findings.jsonl"))
	if err != nil {
		return nil
	}
	defer f.Close()
	var out []*knownFinding
	sc := bufio.NewScanner(f)
	sc.Buffer(make([]byte, 1<<20), 1<<24)
	for sc.Scan() {
		line := strings.TrimSpace(sc.Text())
		if line == "" || strings.HasPrefix(line, "#") {
			continue
		}
		var k knownFinding
		if json.Unmarshal([]byte(line), &k) != nil {
			continue
		}
		if k.Status != "finding" {
			continue
		}
		if k.Match.PathRe != "" {
			k.re, _ = regexp.Compile(k.Match.PathRe)
		}
		out = append(out, &k)
	}
	return out
}

func (k *knownFinding) matches(prop string, c *candidate) bool {
	if k.Property != prop {
		return false
	}
	if k.Match.Harness != "" && k.Match.Harness != c.Job.Harness {
		return false
	}
	okLabel := false
	for _, l := range c.Labels {
		if l == k.Label {
			okLabel = true
		}
	}
	if !okLabel {
		return false
	}
	if k.re != nil {
		param := k.Match.Param
		if param == "" {
			param = "path"
		}
		if !k.re.MatchString(c.Job.Params[param]) {
			return false
		}
	}
	return true
}

type checkRun struct {
	def        *CheckDef
	tier       string
	seed       int64
	prog       *engine.Program
	jobs       []*engine.Job
	results    []*engine.JobResult
	stats      *engine.Stats
	extra      map[string]interface{}
	problems   []string // inconclusive reasons
	staticViol []string // violations found by static obligations (reported as VIOLATION)
}

var engineOnlyLabels = map[string]bool{"unbounded-time": true, "unbounded-recursion": true, "uncaught-panic": true, "use-after-put": true, "pool-double-put": true, "deadlock": true, "unlock-unlocked": true}

var ghostLabels = map[string]bool{"no-use-of-recycled-buffer": true}

func runCheck(def *CheckDef, flags map[string]string) int {
	t0 := time.Now()
	tier := flags["tier"]
	if tier == "" {
		tier = os.Getenv("VERIF_TIER")
	}
	if tier != "thorough" {
		tier = "quick"
	}
	seed := int64(1)
	if s := os.Getenv("VERIF_SEED"); s != "" {
		if v, err := strconv.ParseInt(s, 10, 64); err == nil {
			seed = v
		}
	}
	backend := flags["solver"]
	if backend == "" {
		backend = "z3"
	}
	evPath := filepath.Join(verifDir(), "evidence", def.ID+".json")
	os.Remove(evPath)
	fail := func(code int, msg string) int {
		fmt.Printf("INCONCLUSIVE property=%s %s\n", def.ID, msg)
		writeEvidence(evPath, def, tier, seed, nil, []string{msg}, time.Since(t0), 0)
		return code
	}
	p, err := loadProgram()
	if err != nil {
		return fail(3, "cannot load /repo: "+err.Error())
	}
	run := &checkRun{def: def, tier: tier, seed: seed, prog: p, extra: map[string]interface{}{}}
	run.jobs = def.Jobs(tier, seed)
	if only := flags["job"]; only != "" {
		var keep []*engine.Job
		for _, j := range run.jobs {
			if (strings.HasPrefix(only, "=") && j.ID == only[1:]) || (!strings.HasPrefix(only, "=") && strings.Contains(j.ID, only)) {
				keep = append(keep, j)
			}
		}
		run.jobs = keep
	}
	if tier == "thorough" {
		engine.RecheckRate = 0.2
	}
	if rr := flags["recheck"]; rr != "" {
		if v, err := strconv.ParseFloat(rr, 64); err == nil {
			engine.RecheckRate = v
		}
	}
	logDir := flags["smtlog"]
	crossDir := ""
	if logDir == "" && def.SolverDiff && (tier == "thorough" || flags["crosscheck"] != "") {
		crossDir, _ = os.MkdirTemp("", "verif-smtlog-")
		logDir = crossDir
		defer os.RemoveAll(crossDir)
	}
	// Thorough tiers explore under a wall-clock budget (VERIF_BUDGET_S, default 240 s of
	// exploration): jobs are taken in a seeded random order and the ones not started when
	// the budget is used up are reported as not run - never as covered.
	budget := 0
	if tier == "thorough" {
		budget = 240
	}
	if v, err := strconv.Atoi(os.Getenv("VERIF_BUDGET_S")); err == nil && v >= 0 {
		budget = v
	}
	if budget > 0 {
		brng := rand.New(rand.NewSource(seed + 77))
		brng.Shuffle(len(run.jobs), func(i, j int) { run.jobs[i], run.jobs[j] = run.jobs[j], run.jobs[i] })
		// job families with few members (id prefix up to the first '-', at most 60 jobs) are special
		// obligations rather than samples of a corpus: they go first, so that the budget never drops them
		grp := func(id string) string {
			if k := strings.Index(id, "-"); k > 0 {
				return id[:k]
			}
			return id
		}
		size := map[string]int{}
		for _, j := range run.jobs {
			size[grp(j.ID)]++
		}
		sort.SliceStable(run.jobs, func(a, b int) bool {
			return size[grp(run.jobs[a].ID)] <= 60 && size[grp(run.jobs[b].ID)] > 60
		})
		engine.ExploreDeadline = time.Now().Add(time.Duration(budget) * time.Second)
	}
	res, stats, err := engine.RunJobs(p, run.jobs, nworkers(), backend, true, logDir)
	if err != nil {
		return fail(3, "engine: "+err.Error())
	}
	if budget > 0 {
		notRun := 0
		var kj []*engine.Job
		var kr []*engine.JobResult
		for i, r := range res {
			if r == nil {
				notRun++
				continue
			}
			kj = append(kj, run.jobs[i])
			kr = append(kr, r)
		}
		run.jobs, res = kj, kr
		run.extra["time_budget"] = map[string]interface{}{"exploration_budget_s": budget, "jobs_run": len(kj), "jobs_not_run": notRun,
			"note": "jobs are started in a seeded random order until the budget is used up; jobs not started, or still in flight 30 s after it, are outside this run's claim"}
		if notRun > 0 {
			fmt.Printf("note: %d of %d jobs not started within the %d s exploration budget (reported in the evidence, not counted as covered)\n", notRun, notRun+len(kj), budget)
		}
	}
	run.results, run.stats = res, stats
	if crossDir != "" {
		total, disagree, unknown := crossCheckLogs(crossDir, 6)
		run.extra["solver_crosscheck"] = map[string]interface{}{"scripts_compared": 6, "answers_compared": total, "disagreements": disagree, "unknown_or_error": unknown,
			"solvers": "z3 4.8.12 vs z3-new 5.1.0 vs cvc5 1.0"}
		if disagree > 0 {
			run.problems = append(run.problems, fmt.Sprintf("%d solver disagreements in the cross-check", disagree))
		}
	}
	if def.Post != nil {
		def.Post(run)
	}

	// ---- aggregate ----
	labels := map[string]int{}
	var cands []*candidate
	var witnesses []*engine.Fixture
	paths, done, skipped, aborted := 0, 0, 0, 0
	abortMsgs := map[string]int{}
	truncated := 0
	for ji, r := range res {
		if r == nil {
			continue
		}
		if r.Truncated {
			truncated++
		}
		for l, n := range r.Labels {
			labels[l] += n
		}
		paths += r.NPaths
		done += r.NDone + r.NPanicked
		skipped += r.NSkipped
		aborted += r.NAborted
		for _, m := range r.AbortMsgs {
			if i := strings.Index(m, "\n"); i > 0 {
				m = m[:i]
			}
			abortMsgs[m]++
		}
		for pi := range r.Paths {
			pr := &r.Paths[pi]
			if len(pr.Viol) > 0 && pr.Fixture != nil {
				c := &candidate{Job: run.jobs[ji], Path: pr, Fixture: pr.Fixture}
				for _, v := range pr.Viol {
					c.Labels = append(c.Labels, v.Label)
				}
				cands = append(cands, c)
			} else if pr.Fixture != nil && pr.Status == engine.PathDone {
				witnesses = append(witnesses, pr.Fixture)
			}
		}
	}
	for m, n := range abortMsgs {
		run.problems = append(run.problems, fmt.Sprintf("%d path(s) inconclusive: %s", n, m))
	}
	if truncated > 0 {
		run.problems = append(run.problems, fmt.Sprintf("%d job(s) hit the path bound", truncated))
	}
	if stats.Unknown > 0 {
		run.problems = append(run.problems, fmt.Sprintf("%d solver queries returned unknown", stats.Unknown))
	}
	if stats.Unknown > 0 {
		for _, e := range stats.SolverErrors {
			run.problems = append(run.problems, "solver error: "+e)
			break
		}
	}
	for _, l := range def.ExpectLabels {
		if labels[l] == 0 {
			run.problems = append(run.problems, "vacuity: assertion label never reached: "+l)
		}
	}
	if done == 0 {
		run.problems = append(run.problems, "vacuity: no path completed")
	}

	// ---- confirm candidates natively ----
	harnessDir := harnessDir()
	// keep at most a few candidates per (job, label-set)
	sort.SliceStable(cands, func(i, j int) bool { return cands[i].Job.ID < cands[j].Job.ID })
	perKey := map[string]int{}
	var toReplay []*candidate
	// candidates with natively observable labels first
	sort.SliceStable(cands, func(i, j int) bool { return observable(cands[i]) && !observable(cands[j]) })
	for _, c := range cands {
		k := c.Job.ID + "|" + strings.Join(c.Labels, ",")
		perKey[k]++
		if perKey[k] <= 2 {
			toReplay = append(toReplay, c)
		}
	}
	if len(toReplay) > 400 {
		toReplay = toReplay[:400]
	}
	fxs := make([]*engine.Fixture, len(toReplay))
	for i, c := range toReplay {
		fxs[i] = c.Fixture
	}
	rr, err := engine.NativeReplay(repoDir(), harnessDir, fxs, def.Race, 10*time.Minute)
	if err != nil {
		run.problems = append(run.problems, "native replay failed: "+err.Error())
	}
	known := loadKnownFindings()
	confirmed, unconfirmed, knownHit := 0, 0, map[string]int{}
	confirmCalls := 0
	var newViol []*candidate
	for i, c := range toReplay {
		if i >= len(rr) {
			break
		}
		c.Native = &rr[i]
		ok := false
		for _, l := range c.Labels {
			if engineOnlyLabels[l] {
				if (l == "uncaught-panic" || l == "unbounded-recursion" || l == "unbounded-time") && (c.Native.Panicked || c.Native.Crashed) {
					ok = true
				}
				continue
			}
			for _, f := range c.Native.Failed {
				if f == l {
					ok = true
				}
			}
			// a read of recycled pool memory is a ghost condition the native run cannot
			// observe by itself; its consequence - any assertion of the same harness
			// failing in the native replay of this very input - confirms it
			if ghostLabels[l] && len(c.Native.Failed) > 0 {
				ok = true
			}
		}
		if c.Native.Crashed {
			ok = true
		}
		if !ok && def.Confirm != nil && confirmCalls < 10 {
			// the translated (e.g. -race stress) confirmation is expensive: a bounded number of attempts per run
			confirmCalls++
			ok, _ = def.Confirm(c, repoDir(), harnessDir)
		}
		if !ok {
			c.Status = "unconfirmed"
			unconfirmed++
			if unconfirmed <= 5 {
				dir := filepath.Join(verifDir(), "replay", def.ID)
				os.MkdirAll(dir, 0o755)
				b, _ := json.MarshalIndent(c.Fixture, "", " ")
				os.WriteFile(filepath.Join(dir, fmt.Sprintf("unconfirmed-%d.json", unconfirmed)), b, 0o644)
			}
			fmt.Printf("UNCONFIRMED property=%s job=%s labels=%v native_failed=%v native_panicked=%v path=%q\n",
				def.ID, c.Job.ID, c.Labels, c.Native.Failed, c.Native.Panicked, c.Job.Params["path"])
			continue
		}
		confirmed++
		c.Status = "confirmed"
		for _, k := range known {
			if k.matches(def.ID, c) {
				c.Known = k
				c.Status = "known"
				knownHit[k.ID]++
				break
			}
		}
		if c.Known == nil {
			newViol = append(newViol, c)
		}
	}
	if unconfirmed > 0 {
		run.problems = append(run.problems, fmt.Sprintf("%d violation candidate(s) did not reproduce natively (engine/stub imprecision)", unconfirmed))
	}

	// ---- witness validation against the implementation ----
	maxW := 300
	if tier == "thorough" {
		maxW = 5000
	}
	rng := rand.New(rand.NewSource(seed))
	rng.Shuffle(len(witnesses), func(i, j int) { witnesses[i], witnesses[j] = witnesses[j], witnesses[i] })
	if len(witnesses) > maxW {
		witnesses = witnesses[:maxW]
	}
	validated, wmism := 0, 0
	if len(witnesses) > 0 {
		wr, err := engine.NativeReplay(repoDir(), harnessDir, witnesses, false, 15*time.Minute)
		if err != nil {
			run.problems = append(run.problems, "witness replay failed: "+err.Error())
		}
		for i := range wr {
			d := engine.CompareOutputs(witnesses[i], &wr[i])
			if len(d) > 0 {
				wmism++
				if wmism <= 5 {
					b, _ := json.Marshal(witnesses[i])
					fmt.Printf("WITNESS-MISMATCH property=%s job=%s %v\n  fixture=%s\n", def.ID, witnesses[i].JobID, d, b)
				}
			} else {
				validated++
			}
		}
	}
	if wmism > 0 {
		run.problems = append(run.problems, fmt.Sprintf("%d witness(es) behaved differently on the real build than the engine predicted", wmism))
	}

	// ---- report ----
	for id, n := range knownHit {
		for _, k := range known {
			if k.ID == id {
				fmt.Printf("KNOWN-FINDING: property=%s %s [%s, %d instance(s)]\n", def.ID, k.What, k.ID, n)
			}
		}
	}
	sort.Slice(newViol, func(i, j int) bool { return newViol[i].Job.ID < newViol[j].Job.ID })
	shown := map[string]bool{}
	for _, c := range newViol {
		dir := filepath.Join(verifDir(), "replay", def.ID)
		os.MkdirAll(dir, 0o755)
		b, _ := json.MarshalIndent(c.Fixture, "", " ")
		h := sha1.Sum(b)
		c.Replay = filepath.Join(dir, fmt.Sprintf("%x.json", h[:6]))
		os.WriteFile(c.Replay, b, 0o644)
		key := c.Job.Params["path"] + "|" + strings.Join(c.Labels, ",")
		if shown[key] {
			continue
		}
		shown[key] = true
		if len(shown) <= 40 {
			fmt.Printf("VIOLATION property=%s replay=%s\n  labels=%v path=%q job=%s\n", def.ID, c.Replay, c.Labels, c.Job.Params["path"], c.Job.ID)
		}
	}

	cov := map[string]interface{}{
		"states":                        paths,
		"transitions":                   stats.Forks,
		"traces_validated_against_impl": validated,
		"samples":                       sampleCases(witnesses, cands, 6),
		"programs":                      len(run.jobs),
		"paths_done":                    done,
		"paths_skipped_by_assumption":   skipped,
		"paths_inconclusive":            aborted,
		"assertion_labels_reached":      labels,
		"functions_encoded":             encodedFunctions(p),
		"bounds":                        def.Bounds(tier),
		"stubs":                         def.Stubs,
		"queries": map[string]interface{}{"total": stats.Queries, "branch": stats.BranchQueries, "assertion": stats.AssertQueries,
			"sat": stats.Sat, "unsat": stats.Unsat, "unknown": stats.Unknown, "solver_restarts_after_error": stats.Restarts},
		"byte_domain": map[string]interface{}{"decisions": stats.DomainDecisions, "rechecked_by_solver": stats.DomainRechecks, "disagreements": stats.DomainDisagreements, "refined_by_multi_byte_constraints": stats.DomainRefinements,
			"recheck_rate": engine.RecheckRate},
		"solver":               backend,
		"solver_s":             stats.SolverTime.Seconds(),
		"engine_steps":         stats.Steps,
		"candidates":           len(cands),
		"candidates_replayed":  len(toReplay),
		"confirmed":            confirmed,
		"unconfirmed":          unconfirmed,
		"known_findings_hit":   knownHit,
		"new_violations":       len(newViol),
		"witness_mismatches":   wmism,
		"technique":            def.Technique,
		"exhaustive":           false,
		"inconclusive_reasons": run.problems,
	}
	for k, v := range run.extra {
		cov[k] = v
	}
	if def.Level == "translation_validation" {
		cov["disagreements_checked"] = len(cands)
	}
	writeEvidenceCov(evPath, def, tier, seed, cov, time.Since(t0), len(newViol))
	fmt.Printf("check %s tier=%s: jobs=%d paths=%d (done=%d skipped=%d inconclusive=%d) forks=%d queries=%d solver=%.1fs candidates=%d confirmed=%d known=%d new=%d witnesses=%d/%d wall=%.1fs\n",
		def.ID, tier, len(run.jobs), paths, done, skipped, aborted, stats.Forks, stats.Queries, stats.SolverTime.Seconds(),
		len(cands), confirmed, confirmed-len(newViol), len(newViol), validated, len(witnesses), time.Since(t0).Seconds())
	for i, sv := range run.staticViol {
		dir := filepath.Join(verifDir(), "replay", def.ID)
		os.MkdirAll(dir, 0o755)
		p := filepath.Join(dir, fmt.Sprintf("static-%d.txt", i))
		os.WriteFile(p, []byte(sv+"\n"), 0o644)
		fmt.Printf("VIOLATION property=%s replay=%s\n  %s\n", def.ID, p, sv)
	}
	if len(newViol) > 0 || len(run.staticViol) > 0 {
		return 1
	}
	if len(run.problems) > 0 {
		for _, pr := range run.problems {
			fmt.Printf("INCONCLUSIVE property=%s %s\n", def.ID, pr)
		}
		return 3
	}
	return 0
}

func observable(c *candidate) bool {
	for _, l := range c.Labels {
		if !engineOnlyLabels[l] {
			return true
		}
	}
	return false
}

func sampleCases(w []*engine.Fixture, cands []*candidate, n int) []interface{} {
	var out []interface{}
	for i := 0; i < len(w) && len(out) < n; i++ {
		out = append(out, fixtureSummary(w[i]))
	}
	for i := 0; i < len(cands) && len(out) < n+3; i++ {
		m := fixtureSummary(cands[i].Fixture)
		m["violates"] = cands[i].Labels
		out = append(out, m)
	}
	if len(out) == 0 {
		out = append(out, "no completed path")
	}
	return out
}

func fixtureSummary(f *engine.Fixture) map[string]interface{} {
	m := map[string]interface{}{"job": f.JobID, "params": f.Params}
	if len(f.Ints) > 0 {
		m["ints"] = f.Ints
	}
	if len(f.Holes) > 0 {
		m["holes"] = f.Holes
	}
	if len(f.Docs) > 0 {
		m["docs"] = f.Docs
	}
	if len(f.Out) > 0 {
		m["engine_predicted_out"] = f.Out
	}
	return m
}

func encodedFunctions(p *engine.Program) []string {
	var out []string
	p.FuncsExecuted.Range(func(k, v interface{}) bool {
		out = append(out, k.(string))
		return true
	})
	sort.Strings(out)
	return out
}

func writeEvidence(path string, def *CheckDef, tier string, seed int64, cov map[string]interface{}, problems []string, wall time.Duration, viol int) {
	if cov == nil {
		cov = map[string]interface{}{
			"evaluations": 1, "distinct_nontrivial": 0, "explanation": "run did not complete",
			"inconclusive_reasons": problems,
		}
	}
	writeEvidenceCov(path, def, tier, seed, cov, wall, viol)
}

func writeEvidenceCov(path string, def *CheckDef, tier string, seed int64, cov map[string]interface{}, wall time.Duration, viol int) {
	ev := map[string]interface{}{
		"property_id": def.ID,
		"tier":        tier,
		"seed":        seed,
		"level":       def.Level,
		"coverage":    cov,
		"assumptions": def.Assumptions,
		"wall_s":      wall.Seconds(),
		"violations":  viol,
	}
	os.MkdirAll(filepath.Dir(path), 0o755)
	b, _ := json.MarshalIndent(ev, "", " ")
	os.WriteFile(path, b, 0o644)
}
