package main

import (
	"fmt"
	"math/rand"

	"verif/engine"
)

const nOpaque = 25

func opaqueMask() uint32 {
	var m uint32
	for i := 0; i < nOpaque; i++ {
		m |= engine.KOpaque0 << uint(i)
	}
	return m
}

func init() {
	register(&CheckDef{
		ID:        "C20",
		Level:     "model_checking",
		Technique: "bounded symbolic execution on lazy symbolic documents whose leaves range over 25 non-JSON Go value prototypes besides the JSON kinds; Go's interface equality (including the run-time panic on uncomparable dynamic types) is implemented in the engine; results compared with the reference evaluator",
		Jobs: func(tier string, seed int64) []*engine.Job {
			rng := rand.New(rand.NewSource(seed + 20))
			sp := stepPaths(tier, rng)
			one := pathsWith(sp, func(p Path) bool { return nSteps(p) <= 1 })
			two := samplePaths(pathsWith(sp, func(p Path) bool { return nSteps(p) == 2 }), tierN(tier, 60, 1200), rng)
			fl := samplePaths(filterPaths(tier, rng), tierN(tier, 160, 6000), rng)
			fn := samplePaths(funcPaths(tier, rng), tierN(tier, 30, 800), rng)
			var jobs []*engine.Job
			for i, p := range dedupPaths(append(append(append(one, two...), fl...), fn...)) {
				cfgName := ""
				if p.Funcs {
					cfgName = "funcs"
				}
				depth := p.Depth
				if depth > 2 {
					depth = 2
				}
				if depth < 1 {
					depth = 1
				}
				cfg := docCfg(depth, 2, []string{"a", "b"}, jsonScalars|opaqueMask())
				if depth == 2 {
					cfg.MaxLenAt = map[int]int{1: 1}
				}
				narrow := docCfg(depth, 1, []string{"a"}, jsonScalars|opaqueMask())
				jobs = append(jobs, &engine.Job{ID: fmt.Sprintf("c20-%d", i), Harness: "zzH_C20",
					Params: map[string]string{"path": p.Text, "ast": p.Ast, "holes": p.Holes, "config": cfgName},
					Docs:   map[string]*engine.DocCfg{"doc": cfg}, Budget: tierN(tier, 8000, 200000),
					Narrow: []map[string]*engine.DocCfg{{"doc": narrow}}})
			}
			// error messages on opaque documents: the found type must be the Go type of the value
			for i, p := range samplePaths(dedupPaths(append(append([]Path{}, one...), two...)), tierN(tier, 60, 600), rng) {
				if p.Funcs || len(p.Steps) == 0 {
					continue
				}
				depth := p.Depth
				if depth > 2 {
					depth = 2
				}
				cfg := docCfg(depth, 1, []string{"a"}, jsonScalars|opaqueMask())
				single := "1"
				for _, s := range p.Steps {
					if s.Multi {
						single = "0"
					}
				}
				jobs = append(jobs, &engine.Job{ID: fmt.Sprintf("c20err-%d", i), Harness: "zzH_C15",
					Params: map[string]string{"path": p.Text, "ast": p.Ast, "texts": p.Texts, "holes": p.Holes, "config": "", "single": single, "opaque": "1"},
					Docs:   map[string]*engine.DocCfg{"doc": cfg}, MaxPaths: 300000})
			}
			return jobs
		},
		Bounds: func(tier string) map[string]interface{} {
			return map[string]interface{}{"document": "container depth <= 2, arrays 0..2, keys {a,b}; leaves: null/bool/float64/string or one of 22 prototypes (comparable struct, struct{}{}, pointer, typed nil pointer, typed map, typed slice, array, int, int64, uint8, float32, complex128, func, chan, named string, []byte, uncomparable struct, nested uncomparable struct, nil map[string]interface{}, nil []interface{}, map[string]string, []int)",
				"paths": "step corpus (1-2 steps), filter corpus incl. all comparison kinds, function paths"}
		},
		Stubs:        commonStubs,
		Assumptions:  append([]string{"opaque values are represented by one prototype per Go type family; behaviour is assumed uniform within a family"}, commonAssumptions...),
		ExpectLabels: []string{"no-panic", "documented-runtime-error", "fails-iff-spec-selects-nothing", "result-value"},
	})
}
