package main

import (
	"fmt"
	"os"
	"path/filepath"
	"regexp"
	"strconv"
	"strings"
)

// A reader for the pointlander/peg notation used by jsonpath.peg. It turns the
// grammar into an s-expression that the harness-side PEG interpreter (side B of
// the C17 translation validation) executes. Actions are numbered in textual
// order, as the generator does.

type pegReader struct {
	src     []rune
	pos     int
	actions []string
	nact    int
}

type pegRule struct {
	Name string
	Expr string
}

func (r *pegReader) ws() {
	for r.pos < len(r.src) {
		c := r.src[r.pos]
		if c == ' ' || c == '\t' || c == '\n' || c == '\r' {
			r.pos++
			continue
		}
		if c == '#' {
			for r.pos < len(r.src) && r.src[r.pos] != '\n' {
				r.pos++
			}
			continue
		}
		break
	}
}

func isIdentStart(c rune) bool {
	return c == '_' || (c >= 'a' && c <= 'z') || (c >= 'A' && c <= 'Z')
}
func isIdentRune(c rune) bool { return isIdentStart(c) || (c >= '0' && c <= '9') }

func (r *pegReader) ident() string {
	st := r.pos
	for r.pos < len(r.src) && isIdentRune(r.src[r.pos]) {
		r.pos++
	}
	return string(r.src[st:r.pos])
}

// atRuleStart reports whether an identifier followed by "<-" starts here.
func (r *pegReader) atRuleStart() bool {
	p := r.pos
	if p >= len(r.src) || !isIdentStart(r.src[p]) {
		return false
	}
	for p < len(r.src) && isIdentRune(r.src[p]) {
		p++
	}
	for p < len(r.src) && (r.src[p] == ' ' || r.src[p] == '\t' || r.src[p] == '\n' || r.src[p] == '\r') {
		p++
	}
	return p+1 < len(r.src) && r.src[p] == '<' && r.src[p+1] == '-'
}

func (r *pegReader) escape() rune {
	// after a backslash
	c := r.src[r.pos]
	r.pos++
	switch c {
	case 'n':
		return '\n'
	case 'r':
		return '\r'
	case 't':
		return '\t'
	case 'a':
		return 7
	case 'b':
		return 8
	case 'f':
		return 12
	case 'v':
		return 11
	case '0':
		// \0xHH (hex) or \0ooo (octal)
		if r.pos < len(r.src) && (r.src[r.pos] == 'x' || r.src[r.pos] == 'X') {
			r.pos++
			st := r.pos
			for r.pos < len(r.src) && strings.ContainsRune("0123456789abcdefABCDEF", r.src[r.pos]) {
				r.pos++
			}
			v, _ := strconv.ParseInt(string(r.src[st:r.pos]), 16, 32)
			return rune(v)
		}
		st := r.pos
		for r.pos < len(r.src) && r.src[r.pos] >= '0' && r.src[r.pos] <= '7' && r.pos-st < 3 {
			r.pos++
		}
		v, _ := strconv.ParseInt("0"+string(r.src[st:r.pos]), 8, 32)
		return rune(v)
	}
	return c
}

func (r *pegReader) primary() (string, error) {
	r.ws()
	if r.pos >= len(r.src) {
		return "", fmt.Errorf("unexpected end of grammar")
	}
	c := r.src[r.pos]
	switch {
	case c == '(':
		r.pos++
		e, err := r.alt()
		if err != nil {
			return "", err
		}
		r.ws()
		if r.pos >= len(r.src) || r.src[r.pos] != ')' {
			return "", fmt.Errorf("missing ) at %d", r.pos)
		}
		r.pos++
		return e, nil
	case c == '<':
		r.pos++
		e, err := r.alt()
		if err != nil {
			return "", err
		}
		r.ws()
		if r.pos >= len(r.src) || r.src[r.pos] != '>' {
			return "", fmt.Errorf("missing > at %d", r.pos)
		}
		r.pos++
		return "(cap " + e + ")", nil
	case c == '{':
		depth := 0
		st := r.pos
		for r.pos < len(r.src) {
			if r.src[r.pos] == '{' {
				depth++
			} else if r.src[r.pos] == '}' {
				depth--
				if depth == 0 {
					r.pos++
					break
				}
			}
			r.pos++
		}
		r.actions = append(r.actions, string(r.src[st+1:r.pos-1]))
		k := r.nact
		r.nact++
		return fmt.Sprintf("(act %d)", k), nil
	case c == '.':
		r.pos++
		return "(any)", nil
	case c == '\'' || c == '"':
		q := c
		r.pos++
		var codes []string
		for r.pos < len(r.src) && r.src[r.pos] != q {
			ch := r.src[r.pos]
			r.pos++
			if ch == '\\' {
				ch = r.escape()
			}
			codes = append(codes, strconv.Itoa(int(ch)))
		}
		r.pos++
		kind := "lit"
		if q == '"' {
			kind = "ilit"
		}
		return "(" + kind + " " + strings.Join(codes, " ") + ")", nil
	case c == '[':
		r.pos++
		neg := "0"
		if r.pos < len(r.src) && r.src[r.pos] == '^' {
			neg = "1"
			r.pos++
		}
		var ranges []string
		for r.pos < len(r.src) && r.src[r.pos] != ']' {
			lo := r.src[r.pos]
			r.pos++
			if lo == '\\' {
				lo = r.escape()
			}
			hi := lo
			if r.pos+1 < len(r.src) && r.src[r.pos] == '-' && r.src[r.pos+1] != ']' {
				r.pos++
				hi = r.src[r.pos]
				r.pos++
				if hi == '\\' {
					hi = r.escape()
				}
			}
			ranges = append(ranges, fmt.Sprintf("(r %d %d)", lo, hi))
		}
		r.pos++
		return "(cls " + neg + " " + strings.Join(ranges, " ") + ")", nil
	case isIdentStart(c):
		return "(ref " + r.ident() + ")", nil
	}
	return "", fmt.Errorf("unexpected %q at %d", c, r.pos)
}

func (r *pegReader) suffix() (string, error) {
	e, err := r.primary()
	if err != nil {
		return "", err
	}
	for {
		r.ws()
		if r.pos >= len(r.src) {
			return e, nil
		}
		switch r.src[r.pos] {
		case '*':
			r.pos++
			e = "(star " + e + ")"
		case '+':
			r.pos++
			e = "(plus " + e + ")"
		case '?':
			r.pos++
			e = "(opt " + e + ")"
		default:
			return e, nil
		}
	}
}

func (r *pegReader) prefix() (string, error) {
	r.ws()
	if r.pos < len(r.src) {
		switch r.src[r.pos] {
		case '!':
			r.pos++
			e, err := r.prefix()
			return "(not " + e + ")", err
		case '&':
			r.pos++
			e, err := r.prefix()
			return "(and " + e + ")", err
		}
	}
	return r.suffix()
}

func (r *pegReader) seq() (string, error) {
	var items []string
	for {
		r.ws()
		if r.pos >= len(r.src) {
			break
		}
		c := r.src[r.pos]
		if c == '/' || c == ')' || c == '>' || r.atRuleStart() {
			break
		}
		e, err := r.prefix()
		if err != nil {
			return "", err
		}
		items = append(items, e)
	}
	if len(items) == 1 {
		return items[0], nil
	}
	return "(seq " + strings.Join(items, " ") + ")", nil
}

func (r *pegReader) alt() (string, error) {
	var alts []string
	for {
		e, err := r.seq()
		if err != nil {
			return "", err
		}
		alts = append(alts, e)
		r.ws()
		if r.pos < len(r.src) && r.src[r.pos] == '/' {
			r.pos++
			continue
		}
		break
	}
	if len(alts) == 1 {
		return alts[0], nil
	}
	return "(alt " + strings.Join(alts, " ") + ")", nil
}

// readPegGrammar parses jsonpath.peg; returns the serialised grammar, the
// action bodies in textual order and the rule names.
func readPegGrammar(repo string) (string, []string, []string, error) {
	b, err := os.ReadFile(filepath.Join(repo, "jsonpath.peg"))
	if err != nil {
		return "", nil, nil, err
	}
	src := string(b)
	// skip the header: "package ..." and "type X Peg { ... }"
	i := strings.Index(src, "Peg {")
	if i < 0 {
		return "", nil, nil, fmt.Errorf("no `type ... Peg {` header")
	}
	j := strings.Index(src[i:], "}")
	r := &pegReader{src: []rune(src[i+j+1:])}
	var rules []string
	var names []string
	for {
		r.ws()
		if r.pos >= len(r.src) {
			break
		}
		if !r.atRuleStart() {
			return "", nil, nil, fmt.Errorf("expected a rule at offset %d: %q", r.pos, string(r.src[r.pos:min(len(r.src), r.pos+30)]))
		}
		name := r.ident()
		r.ws()
		r.pos += 2 // <-
		e, err := r.alt()
		if err != nil {
			return "", nil, nil, fmt.Errorf("rule %s: %v", name, err)
		}
		rules = append(rules, "(rule "+name+" "+e+")")
		names = append(names, name)
	}
	return "(peg " + strings.Join(rules, " ") + ")", r.actions, names, nil
}

var wsRe = regexp.MustCompile(`\s+`)

func normWS(s string) string { return strings.TrimSpace(wsRe.ReplaceAllString(s, " ")) }

// generatedActionBodies extracts the bodies of `case ruleActionN:` from Execute().
func generatedActionBodies(repo string) (map[int]string, error) {
	b, err := os.ReadFile(filepath.Join(repo, "jsonpath.peg.go"))
	if err != nil {
		return nil, err
	}
	src := string(b)
	st := strings.Index(src, "func (p *pegJSONPathParser) Execute()")
	if st < 0 {
		return nil, fmt.Errorf("Execute() not found")
	}
	end := strings.Index(src[st:], "\nfunc ")
	body := src[st : st+end]
	re := regexp.MustCompile(`case ruleAction(\d+):`)
	locs := re.FindAllStringSubmatchIndex(body, -1)
	out := map[int]string{}
	for i, l := range locs {
		n, _ := strconv.Atoi(body[l[2]:l[3]])
		stop := len(body)
		if i+1 < len(locs) {
			stop = locs[i+1][0]
		} else {
			// last case: up to the closing of the switch
			if k := strings.LastIndex(body, "\n\t\t}\n"); k > l[1] {
				stop = k
			}
		}
		out[n] = normWS(body[l[1]:stop])
	}
	return out, nil
}
