package main

import (
	"bufio"
	"bytes"
	"fmt"
	"os"
	"os/exec"
	"path/filepath"
	"strings"
	"time"
)

// solverAnswers feeds one logged incremental script to a solver and returns
// the sequence of check-sat answers.
func solverAnswers(backend, script string) ([]string, error) {
	data, err := os.ReadFile(script)
	if err != nil {
		return nil, err
	}
	var in bytes.Buffer
	var name string
	var args []string
	switch backend {
	case "z3", "z3-new":
		name, args = backend, []string{"-in"}
		in.Write(data)
	case "cvc5":
		name, args = "cvc5", []string{"--incremental", "--lang=smt2", "--fp-exp"}
		in.WriteString("(set-option :global-declarations true)\n(set-option :produce-models true)\n(set-option :tlimit-per 20000)\n(set-logic ALL)\n")
		sc := bufio.NewScanner(bytes.NewReader(data))
		sc.Buffer(make([]byte, 1<<20), 1<<26)
		for sc.Scan() {
			l := sc.Text()
			if strings.HasPrefix(l, "(set-option") {
				continue
			}
			in.WriteString(l + "\n")
		}
	}
	cmd := exec.Command(name, args...)
	cmd.Stdin = &in
	out, _ := cmd.Output()
	var ans []string
	for _, l := range strings.Split(string(out), "\n") {
		l = strings.TrimSpace(l)
		switch l {
		case "sat", "unsat", "unknown":
			ans = append(ans, l)
		}
		if strings.HasPrefix(l, "(error") {
			ans = append(ans, "error")
		}
	}
	return ans, nil
}

// cmdSolverDiff re-runs the logged query scripts of a check on z3 4.8.12,
// z3 5.1 (z3-new) and cvc5 and compares every check-sat answer.
func cmdSolverDiff(id string, flags map[string]string) int {
	def, ok := checks[id]
	if !ok {
		fmt.Println("unknown check", id)
		return 2
	}
	dir, err := os.MkdirTemp("", "verif-smtlog-")
	if err != nil {
		return 3
	}
	defer os.RemoveAll(dir)
	flags["smtlog"] = dir
	if flags["job"] == "" && flags["all"] == "" {
		fmt.Println("solverdiff: logging the queries of one quick run of", id)
	}
	os.Setenv("VERIF_WORKERS", "4")
	code := runCheck(def, flags)
	if code == 1 {
		fmt.Println("solverdiff: the check itself reports a violation; comparing solvers anyway")
	}
	t0 := time.Now()
	logs, _ := filepath.Glob(filepath.Join(dir, "solver-*.smt2"))
	total, disagree, unknown := crossCheckLogs(dir, len(logs))
	fmt.Printf("solverdiff %s: %d logged scripts, %d answers compared (z3 4.8.12 vs z3-new 5.1 vs cvc5), %d disagreements, %d unknown/error, %.1fs\n",
		id, len(logs), total, disagree, unknown, time.Since(t0).Seconds())
	if disagree > 0 {
		return 3
	}
	return 0
}

// crossCheckLogs compares the check-sat answers of up to max logged scripts.
func crossCheckLogs(dir string, max int) (total, disagree, unknown int) {
	logs, _ := filepath.Glob(filepath.Join(dir, "solver-*.smt2"))
	if len(logs) > max {
		logs = logs[:max]
	}
	for _, lg := range logs {
		base, _ := solverAnswers("z3", lg)
		for _, other := range []string{"z3-new", "cvc5"} {
			ans, _ := solverAnswers(other, lg)
			if len(ans) != len(base) {
				fmt.Printf("solverdiff: %s answered %d queries, z3 answered %d (%s)\n", other, len(ans), len(base), filepath.Base(lg))
				disagree++
				continue
			}
			for i := range base {
				total++
				if ans[i] == "unknown" || base[i] == "unknown" || ans[i] == "error" || base[i] == "error" {
					unknown++
					continue
				}
				if ans[i] != base[i] {
					disagree++
					if disagree <= 5 {
						fmt.Printf("solverdiff: DISAGREEMENT query %d of %s: z3=%s %s=%s\n", i, filepath.Base(lg), base[i], other, ans[i])
					}
				}
			}
		}
	}
	return
}
