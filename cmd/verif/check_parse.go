package main

import (
	"fmt"
	"math/rand"
	"sort"
	"strings"

	"verif/engine"
)

// skeletons: valid corpus paths, failing paths and the suite's own paths.
func skeletons(tier string, rng *rand.Rand) []string {
	seen := map[string]bool{}
	var out []string
	add := func(s string) {
		if !seen[s] && len([]rune(s)) == len(s) && len(s) <= 40 {
			seen[s] = true
			out = append(out, s)
		}
	}
	addAny := func(s string) {
		if !seen[s] && len(s) <= 40 {
			seen[s] = true
			out = append(out, s)
		}
	}
	for _, p := range stepPaths(tier, rng) {
		if p.Holes == "" && nSteps(p) <= 2 {
			add(p.Text)
		}
	}
	for _, p := range filterPaths(tier, rng) {
		if p.Holes == "" {
			add(p.Text)
		}
	}
	for _, p := range funcPaths(tier, rng) {
		if p.Holes == "" {
			add(p.Text)
		}
	}
	for _, b := range badPaths() {
		add(b)
	}
	extra := []string{"$[?(1 < 2)]", "$[?($.a > 1)]", "$[?($.a < $.b)]", "$[?(@.max().max() == 1)]", "$[?(@.*.agg().agh() == 1)]", "$[?(@.agg().agh())]", "$[?($.agg().agg().agh() == 1)]", "$[?(@.a.f().agg().g() == 1)]", "$[?(@.a =~ /a.c/)]", "$['a\\'b']", "$[\"a\\\"b\"]",
		"$.a\\.b", "$['\\u0041']", "$[?(@.a == 'x\\'y')]", "$[ 0 , 1 ]", "$[?( @.a == 1 )]", "$[1:2:3]", "$[::]", "$.*.*", "$..[?(@.a)]", "@.a", "a.b", "$[?(!@.a)]",
		"$[?(@.a && (@.b || @.c))]", "$.a.f().g()", "$.*.agg().f()", "$[?(@.f() == 1)]", "$[?($.agg() == 1)]", "$[(1+1)]", "$[?(@.a == -1.5e+3)]"}
	// paths that omit the leading `$` (bracket-, filter- or name-first), and regular
	// expressions with escaped backslashes and slashes
	extra = append(extra, "[?(@.a)]", "[?(!@.a)]", "[?(@.a == 1)].b", " [?(@)] ", "[?($[0].a == @.a)]", "[?(@[?(@.b)])]", "[*]", "*", "..a", "['a']", " a", " ['a'] ", " [0]", "[0][?(@.c)]",
		`$[?(@.a=~/\\/)]`, `$[?(@.a =~ /x\\/ )]`, `$[?(@.a=~/x\\/y/)]`, `$[?(@.a=~/\\//)]`, `$[?(@.a=~/a\/b/)]`, `$[?(@.a=~/\d\//)]`, `$[?(@.a=~/[\\]/)]`, `$[?(@.a=~/\/)]`)
	for _, e := range extra {
		add(e)
	}
	// non-ASCII skeletons (concrete multi-byte characters next to the hole)
	for _, e := range []string{"$.ああ", "$['é']", "$.ああ[", "$[?(@.é == 'ü')]", "$.a\xff", "$['\xc3']", "$.k\U0010ffff", "$['\U0010ffff']", "$.\U0010fffe.a", "$['\\u001f']", "$[\"\\uffef\"]", "$.テスト x", "$[?(@.a != @.b)]", "$[?((@.a == 1 ) && @.b)]"} {
		addAny(e)
	}
	// deeply nested filters (parse time must stay bounded)
	for _, depth := range []int{6, 10, 14, 18} {
		s := "@.a"
		for i := 0; i < depth; i++ {
			s = "@.a[?(" + s + ")]"
		}
		nested := "$[?(" + s + ")]"
		if !seen[nested] {
			seen[nested] = true
			out = append(out, nested)
		}
	}
	if cases, err := extractSuiteCases(repoDir()); err == nil {
		for _, c := range cases {
			addAny(c.Path)
		}
	}
	sort.Strings(out)
	return out
}

func parseJobs(harness, prefix string, tier string, seed int64, extra map[string]string) []*engine.Job {
	return parseJobsN(harness, prefix, tier, seed, extra, tierN(tier, 6, 7), tierN(tier, 1400, 40000))
}

func parseJobsN(harness, prefix string, tier string, seed int64, extra map[string]string, maxLen, nHoles int) []*engine.Job {
	rng := rand.New(rand.NewSource(seed + 2))
	var jobs []*engine.Job
	mk := func(id string, params map[string]string) {
		for k, v := range extra {
			params[k] = v
		}
		depth, fuel := 300, 0
		if harness == "zzH_C17" {
			depth, fuel = 1200, 40_000_000 // the recursive grammar interpreter nests deeper than the generated parser
		}
		jobs = append(jobs, &engine.Job{ID: prefix + id, Harness: harness, Params: params, DepthIsViolation: harness == "zzH_C02",
			Docs: map[string]*engine.DocCfg{"doc": docCfg(1, 1, []string{"a"}, engine.KNil|engine.KFloat)}, MaxPaths: 3000000, MaxDepth: depth, Fuel: fuel})
	}
	// (a) fully symbolic strings, split by the class of the first two bytes for parallelism
	ranges := []string{"0-35", "36-36", "37-45", "46-46", "47-63", "64-64", "65-90", "91-91", "92-127"}
	for n := 1; n <= maxLen; n++ {
		for _, cfg := range []string{"", "funcs"} {
			if cfg == "funcs" && (n < 3 || n == maxLen) {
				continue
			}
			if n < 4 {
				mk(fmt.Sprintf("sym%d-%s", n, cfg), map[string]string{"symlen": fmt.Sprint(n), "split": "", "path": "", "holepos": "", "holes": "", "config": cfg, "eval": "0"})
				continue
			}
			for _, r0 := range ranges {
				if r0 == "36-36" || r0 == "91-91" || r0 == "64-64" || r0 == "65-90" {
					for _, r1 := range ranges {
						mk(fmt.Sprintf("sym%d-%s-%s-%s", n, cfg, r0, r1), map[string]string{"symlen": fmt.Sprint(n), "split": r0 + "," + r1, "path": "", "holepos": "", "holes": "", "config": cfg, "eval": "0"})
					}
				} else {
					mk(fmt.Sprintf("sym%d-%s-%s", n, cfg, r0), map[string]string{"symlen": fmt.Sprint(n), "split": r0, "path": "", "holepos": "", "holes": "", "config": cfg, "eval": "0"})
				}
			}
		}
	}
	// (b) skeletons with one (thorough: also two) symbolic bytes
	sk := skeletons(tier, rng)
	if harness == "zzH_C17" {
		// the grammar-side interpreter has no memo table (plain PEG semantics): its cost is
		// exponential in the filter nesting depth, so the deepest skeletons are left to C02
		var keep []string
		for _, s := range sk {
			if strings.Count(s, "[?(") <= 5 {
				keep = append(keep, s)
			}
		}
		sk = keep
	}
	type hole struct {
		s   string
		pos []int
	}
	var hs []hole
	for _, s := range sk {
		for i := 0; i < len(s); i++ {
			hs = append(hs, hole{s, []int{i}})
		}
	}
	rng.Shuffle(len(hs), func(i, j int) { hs[i], hs[j] = hs[j], hs[i] })
	n1 := nHoles
	if len(hs) > n1 {
		hs = hs[:n1]
	}
	// every skeleton as it is (no symbolic byte): not sampled
	for _, s := range sk {
		hs = append(hs, hole{s, nil})
	}
	if tier == "thorough" {
		for k := 0; k < 6000; k++ {
			s := sk[rng.Intn(len(sk))]
			if len(s) < 2 {
				continue
			}
			a, b := rng.Intn(len(s)), rng.Intn(len(s))
			if a == b {
				continue
			}
			hs = append(hs, hole{s, []int{a, b}})
		}
	}
	for i, h := range hs {
		var ps []string
		for _, p := range h.pos {
			ps = append(ps, fmt.Sprint(p))
		}
		cfg := "funcs"
		if i%5 == 0 {
			cfg = ""
		}
		if i%7 == 0 {
			cfg = "funcs+accessor"
		}
		mk(fmt.Sprintf("hole-%d", i), map[string]string{"symlen": "0", "split": "", "path": h.s, "holepos": strings.Join(ps, ","), "holes": "", "config": cfg, "eval": "1"})
	}
	return jobs
}

func parseBounds(tier string) map[string]interface{} { return parseBoundsN(tier, tierN(tier, 6, 7)) }

func parseBoundsN(tier string, maxLen int) map[string]interface{} {
	return map[string]interface{}{
		"strings": fmt.Sprintf("(a) every string of 1..%d symbolic ASCII bytes (all 128^n byte values per length); (b) skeletons (corpus paths, failing paths, the suite's own paths incl. non-ASCII ones, <= 40 bytes) with one symbolic ASCII byte at a position (thorough: all positions and sampled pairs)", maxLen),
		"configs": "none / recording functions / functions + accessor mode",
		"bounds":  "call depth 300 and 5e6 SSA steps per path are unwinding assertions: exceeding the call depth is reported as a violation candidate (confirmed natively by the crash), fuel exhaustion as inconclusive",
		"outside": "symbolic non-ASCII bytes; more than 2 free bytes in strings longer than 5",
	}
}

func init() {
	byteStubs := append([]string{
		"single-byte conditions are decided on a 256-value domain per byte (exact); the conditions stay in the path condition and every completed path is re-checked sat by z3",
		"strconv.Atoi on symbolic digits: exact value term; strconv.ParseFloat / regexp.Compile on symbolic bytes: both outcomes explored (over-approximation, such paths are marked approximate and only their assertions are validated natively)",
		"encoding/json.Unmarshal of a quoted string with symbolic ASCII bytes: exact byte-class model (quote, backslash escapes, control characters)",
		"regexp `\\\\(.)` ReplaceAllStringFunc/FindStringSubmatch on symbolic bytes: exact model; map lookup with a symbolic key compares against every concrete key",
	}, commonStubs...)
	register(&CheckDef{
		ID:           "C02",
		Level:        "model_checking",
		Technique:    "bounded symbolic execution of Parse including the 3.5 kLoC generated PEG recogniser and every parser action on strings with symbolic bytes (go/ssa -> SMT bit-vectors; unary byte constraints decided on exact domains, everything else by z3)",
		Jobs:         func(tier string, seed int64) []*engine.Job { return parseJobs("zzH_C02", "c02-", tier, seed, nil) },
		Bounds:       parseBounds,
		Stubs:        byteStubs,
		Assumptions:  commonAssumptions,
		ExpectLabels: []string{"no-panic", "mutex-free", "parser-state-reset", "function-xor-error", "documented-parse-error", "parsed-function-usable"},
	})
	register(&CheckDef{
		ID:        "C17",
		Level:     "translation_validation",
		Technique: "translation validation by joint bounded symbolic execution: the generated parser (real code, go/ssa) and an interpreter of jsonpath.peg itself run on the same symbolic string; the traces of text captures and actions, acceptance, error position and 'near' text must agree on every path; action bodies of Execute() are compared textually with the grammar's",
		Jobs: func(tier string, seed int64) []*engine.Job {
			peg, _, _, err := readPegGrammar(repoDir())
			if err != nil {
				return []*engine.Job{{ID: "c17-grammar-unreadable", Harness: "zzH_missing", Params: map[string]string{"error": err.Error()}}}
			}
			// the joint run (real parser + grammar interpreter) costs ~5x a plain Parse: one byte less than C02
			jobs := parseJobsN("zzH_C17", "c17-", tier, seed, map[string]string{"peg": peg, "start": "expression", "accept_action": "0"}, tierN(tier, 5, 6), tierN(tier, 900, 30000))
			// documented semantic restrictions, decided on strings with free bytes
			rj := func(id, restriction, path, holepos string, lo, n int, cfg string) {
				jobs = append(jobs, &engine.Job{ID: "c17r-" + id, Harness: "zzH_C17_restrict", MaxPaths: 2000000, MaxDepth: 300,
					Params: map[string]string{"restriction": restriction, "path": path, "holepos": holepos, "lo": fmt.Sprint(lo), "n": fmt.Sprint(n), "config": cfg, "holes": ""}})
			}
			rj("two2", "two-current", "$[?(@.aXX@.b)]", "7,8", 7, 2, "")
			rj("two3", "two-current", "$[?(@.aXXX@.b)]", "7,8,9", 7, 3, "")
			rj("two2b", "two-current", "$[?(@ XX @)]", "6,7", 6, 2, "")
			rj("two2f", "two-current", "$.a[?(@.f()XX@[0])]", "11,12", 11, 2, "funcs")
			rj("script2", "script", "$[(XX)]", "3,4", 3, 2, "")
			rj("script3", "script", "$[(@XX)]", "4,5", 4, 2, "")
			rj("script4", "script", "$.a[( XXX )]", "6,7,8", 6, 3, "")
			return jobs
		},
		Bounds:       func(tier string) map[string]interface{} { return parseBoundsN(tier, tierN(tier, 5, 6)) },
		Stubs:        byteStubs,
		Assumptions:  append([]string{"the PEG file reader (cmd/verif/peg.go) and the PEG interpreter (harness/pegspec.go) implement standard PEG semantics of the pointlander/peg notation; the documented semantic restrictions beyond the grammar are implemented by the action bodies, which are compared textually between jsonpath.peg and Execute()"}, commonAssumptions...),
		ExpectLabels: []string{"comparison-of-two-current-nodes-is-rejected", "script-is-rejected", "same-trace-length", "same-trace", "rejected-by-grammar-is-an-error", "error-position-is-end-of-accepted-prefix", "near-is-rest-of-path", "parsed-implies-derivable"},
		Post:         c17Static,
	})
}

// c17Static compares the action bodies of Execute() with the grammar's.
func c17Static(run *checkRun) {
	_, actions, _, err := readPegGrammar(repoDir())
	if err != nil {
		run.problems = append(run.problems, "cannot read grammar: "+err.Error())
		return
	}
	gen, err := generatedActionBodies(repoDir())
	if err != nil {
		run.problems = append(run.problems, "cannot read generated parser: "+err.Error())
		return
	}
	mism := 0
	for i, a := range actions {
		if normWS(a) != gen[i] {
			mism++
			run.staticViol = append(run.staticViol, fmt.Sprintf("action %d differs: grammar=%q generated=%q", i, normWS(a), gen[i]))
		}
	}
	if len(gen) != len(actions) {
		run.staticViol = append(run.staticViol, fmt.Sprintf("grammar has %d actions, Execute() has %d", len(actions), len(gen)))
	}
	run.extra["action_bodies_compared"] = len(actions)
	run.extra["action_body_mismatches"] = mism
}

// c16Keys: tricky key skeletons.
func c16Keys() []string {
	return []string{
		"a", "ab", "a b", "a.b", "a'b", "a\"b", "a\\b", "a\\\\b", "\\n", "\\u0041", "\\", "'", "\"", "\\'", "\\\"",
		"$", "@", "*", "..", "[0]", "a,b", " ", "a]", "['a']", "?(x)", "a/b", "a\tb", "\x01", "ab\x7f", "\x1f", "a\nb",
		"é", "aé", "日本", "𝄞", "a𝄞b", "-", "_", "a-b_c", "0", "007", "true", "null", "()", "f()", "a()", "a:b", "1:2", "a=~b", "&&", "||", "!a", "<", "a=='b'",
		"\\u00e9", "\\ud834\\udd1e", "\\b", "\U0010ffff", "k\U0010ffff", "\uffff", "\U00010000", "\u007f", "\x0f", "a\x1fb", "\u00ff", "/", "\\/", "~", "`", "{", "}", "^", "#", "%", "a+b", ";",
		// code points at the edges of the UTF-8 encoding lengths, of the surrogate gap and of the BMP; U+FFFD is what decoders substitute for ill-formed input
		"\ufffd", "a\ufffdb", "\ufffc", "\ufffe", "\u0080", "\u07ff", "\u0800", "\ud7ff", "\ue000", "\ufeff",
	}
}

func c16Jobs(tier string, seed int64) []*engine.Job {
	var jobs []*engine.Job
	n := 0
	add := func(key, holepos, near, nearpos, pos string) {
		jobs = append(jobs, &engine.Job{ID: fmt.Sprintf("c16-%d", n), Harness: "zzH_C16",
			Params: map[string]string{"key": key, "holepos": holepos, "near": near, "nearpos": nearpos, "pos": pos, "path": key}, MaxPaths: 400000})
		n++
	}
	for _, k := range c16Keys() {
		// near-miss siblings: with/without escape characters, one extra character
		nears := []string{k + "x", "\\" + k, "x" + k}
		if strings.Contains(k, "\\") {
			nears = append(nears, strings.Replace(k, "\\", "", 1), strings.Replace(k, "\\", "\\\\", 1))
		}
		if strings.Contains(k, "'") {
			nears = append(nears, strings.Replace(k, "'", "\\'", 1))
		}
		if len(k) > 1 {
			nears = append(nears, k[:len(k)-1])
		}
		for pi, pos := range []string{"root", "nested", "filter"} {
			// concrete key
			add(k, "", nears[(pi)%len(nears)], "", pos)

			// one symbolic byte at each ASCII position (the sibling keeps the concrete key)
			for i := 0; i < len(k); i++ {
				if k[i] >= 0x80 {
					continue
				}

				add(k, fmt.Sprint(i), k, "", pos)
				// the same symbolic byte in the key and in a sibling that differs elsewhere
				add(k, fmt.Sprint(i), nears[0], fmt.Sprint(i), pos)
			}
			if tier == "thorough" && len(k) >= 2 && k[0] < 0x80 && k[1] < 0x80 {
				add(k, "0,1", k, "", pos)
			}
		}
	}
	return jobs
}

func init() {
	register(&CheckDef{
		ID:        "C16",
		Level:     "model_checking",
		Technique: "bounded symbolic execution of escaper -> real PEG parser -> the three unescape routines -> map lookup on keys with symbolic ASCII bytes (byte-class forks decided on exact domains, key equalities by z3); each spelling must return exactly the member's value",
		Jobs:      c16Jobs,
		Bounds: func(tier string) map[string]interface{} {
			return map[string]interface{}{"keys": "76 tricky key skeletons (quotes, backslashes, escape-like text, control characters, symbols, non-ASCII, non-BMP, empty excluded by construction of the sibling) with 0 or 1 (thorough: 2) symbolic ASCII bytes at each position in turn; one near-miss sibling key per job",
				"positions": "at the root, below a name step, inside a filter operand (`..` is covered only with concrete keys through C01/C18: sorting keys with symbolic bytes is not modelled)",
				"spellings": "['k'], [\"k\"] with JSON-style escaping; dot notation with every symbol character backslash-escaped, for non-empty keys without control characters"}
		},
		Stubs: []string{"encoding/json.Unmarshal of a quoted string with symbolic ASCII bytes: exact byte-class model, validated against the host library by the witnesses of every run",
			"regexp `\\\\(.)` ReplaceAllStringFunc on symbolic bytes: exact model", "maps with symbolic-byte keys: lookups compare keys one by one (equalities decided by z3)"},
		Assumptions:  append([]string{"symbolic bytes are ASCII (0..127); non-ASCII characters occur only concretely in the skeletons"}, commonAssumptions...),
		ExpectLabels: []string{"single-quoted", "double-quoted", "dot-notation", "sibling-addressable"},
	})
}
