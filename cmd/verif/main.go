package main

import (
	"fmt"
	"os"
	"runtime/debug"
	"runtime/pprof"
	"strings"
)

func usage() {
	fmt.Fprintln(os.Stderr, `usage:
  verif selftest [--limit N]
  verif check <property-id> [--tier quick|thorough]
  verif replay <fixture.json>
  verif solverdiff <property-id> [--job <substring>]`)
	os.Exit(2)
}

func repoDir() string {
	if d := os.Getenv("VERIF_REPO"); d != "" {
		return d
	}
	return "/repo"
}

func verifDir() string {
	if d := os.Getenv("VERIF_DIR"); d != "" {
		return d
	}
	return "/verif"
}

func main() {
	if len(os.Args) < 2 {
		usage()
	}
	os.Setenv("GOFLAGS", "-mod=mod")
	os.Setenv("GOPROXY", "off")
	os.Setenv("GOSUMDB", "off")
	os.Setenv("GOTOOLCHAIN", "local")
	args := os.Args[2:]
	flags := map[string]string{}
	var pos []string
	for i := 0; i < len(args); i++ {
		if strings.HasPrefix(args[i], "--") {
			k := strings.TrimPrefix(args[i], "--")
			if eq := strings.Index(k, "="); eq >= 0 {
				flags[k[:eq]] = k[eq+1:]
			} else if i+1 < len(args) && !strings.HasPrefix(args[i+1], "--") {
				flags[k] = args[i+1]
				i++
			} else {
				flags[k] = "1"
			}
		} else {
			pos = append(pos, args[i])
		}
	}
	if cp := flags["cpuprofile"]; cp != "" {
		f, _ := os.Create(cp)
		pprof.StartCPUProfile(f)
		defer pprof.StopCPUProfile()
	}
	debug.SetGCPercent(400)
	code := 0
	defer func() { pprof.StopCPUProfile(); cleanupHarnessSnap(); os.Exit(code) }()
	switch os.Args[1] {
	case "selftest":
		code = cmdSelftest(flags)
	case "check":
		if len(pos) < 1 {
			usage()
		}
		code = cmdCheck(pos[0], flags)
	case "solverdiff":
		if len(pos) < 1 {
			usage()
		}
		code = cmdSolverDiff(pos[0], flags)
	case "replay":
		if len(pos) < 1 {
			usage()
		}
		code = cmdReplay(pos[0], flags)
	default:
		usage()
	}
}
