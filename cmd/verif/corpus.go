package main

import (
	"fmt"
	"math/rand"
	"strings"
)

// Step is one path step: its text as written and its AST (s-expression)
// for the reference evaluator.
type Step struct {
	Text   string
	Ast    string
	Kind   string // name multi wild index union slice desc filter func agg
	Multi  bool   // multi-valued step
	Holes  string // "7001=name;..." numeral holes used by the text
	Depth  int    // document depth this step descends (1 for most, 2 for desc)
	Funcs  bool   // needs the function configuration
	RootOp bool   // contains a $-rooted filter operand
}

func st(text, ast, kind string, multi bool) Step {
	return Step{Text: text, Ast: ast, Kind: kind, Multi: multi, Depth: 1}
}

// Expr is a filter expression.
type Expr struct {
	Text   string
	Ast    string
	Holes  string
	RootOp bool
	Funcs  bool
	Kind   string
}

// operand of a comparison / existence test
type Operand struct {
	Text    string
	Ast     string
	Literal bool
	Type    string // num str bool null path
	Cur     bool   // @-rooted
	Root    bool   // $-rooted
	Holes   string
	Numeric bool // allowed by qNumericParam (number literal or path)
}

func pathOperands(tier string) []Operand {
	ops := []Operand{
		{Text: "@.a", Ast: "(cur (name a))", Cur: true, Type: "path", Numeric: true},
		{Text: "@", Ast: "(cur)", Cur: true, Type: "path", Numeric: true},
		{Text: "$.b", Ast: "(root (name b))", Root: true, Type: "path", Numeric: true},
		{Text: "@.b", Ast: "(cur (name b))", Cur: true, Type: "path", Numeric: true},
		{Text: "@[0]", Ast: "(cur (union (i 0)))", Cur: true, Type: "path", Numeric: true},
		{Text: "$.a", Ast: "(root (name a))", Root: true, Type: "path", Numeric: true},
	}
	if tier == "thorough" {
		ops = append(ops,
			Operand{Text: "@.a.b", Ast: "(cur (name a) (name b))", Cur: true, Type: "path", Numeric: true},
			Operand{Text: "$[0]", Ast: "(root (union (i 0)))", Root: true, Type: "path", Numeric: true},
			Operand{Text: "$", Ast: "(root)", Root: true, Type: "path", Numeric: true},
			Operand{Text: "@[-1]", Ast: "(cur (union (i -1)))", Cur: true, Type: "path", Numeric: true},
		)
	}
	return ops
}

func literalOperands() []Operand {
	return []Operand{
		{Text: "7.5e1", Ast: "(numh lit)", Literal: true, Type: "num", Holes: "7.5e1=lit:f", Numeric: true},
		{Text: "'x'", Ast: "(str x)", Literal: true, Type: "str"},
		{Text: "true", Ast: "(bool true)", Literal: true, Type: "bool"},
		{Text: "null", Ast: "(null)", Literal: true, Type: "null"},
		{Text: "false", Ast: "(bool false)", Literal: true, Type: "bool"},
		{Text: "\"y\"", Ast: "(str y)", Literal: true, Type: "str"},
		{Text: "1", Ast: "(num 1)", Literal: true, Type: "num", Numeric: true},
	}
}

func joinHoles(a, b string) string {
	if a == "" {
		return b
	}
	if b == "" || a == b {
		return a
	}
	return a + ";" + b
}

// comparisons enumerates comparison expressions: operator x operand kinds x order.
func comparisons(tier string) []Expr {
	var out []Expr
	paths := pathOperands(tier)
	lits := literalOperands()
	if tier != "thorough" {
		lits = lits[:4]
	}
	add := func(l Operand, op string, r Operand) {
		if l.Cur && r.Cur {
			return // two @ operands are a syntax error
		}
		numericOp := op != "==" && op != "!="
		if numericOp && (!l.Numeric || !r.Numeric) {
			return
		}
		out = append(out, Expr{Text: l.Text + " " + op + " " + r.Text, Ast: fmt.Sprintf("(cmp %s %s %s)", op, l.Ast, r.Ast),
			Holes: joinHoles(l.Holes, r.Holes), RootOp: l.Root || r.Root, Kind: "cmp"})
	}
	ops := []string{"==", "!=", "<", "<=", ">", ">="}
	for _, op := range ops {
		for _, p := range paths {
			for _, l := range lits {
				add(p, op, l)
				add(l, op, p)
			}
		}
		// path vs path (both orders arise from the double loop)
		for _, p := range paths {
			for _, q := range paths {
				if p.Text == q.Text && tier != "thorough" {
					continue
				}
				add(p, op, q)
			}
		}
	}
	// literal vs literal (a few)
	out = append(out, Expr{Text: "1 == 1", Ast: "(cmp == (num 1) (num 1))", Kind: "cmp"},
		Expr{Text: "1 == 2", Ast: "(cmp == (num 1) (num 2))", Kind: "cmp"},
		Expr{Text: "1 < 2", Ast: "(cmp < (num 1) (num 2))", Kind: "cmp"},
		Expr{Text: "2 <= 1", Ast: "(cmp <= (num 2) (num 1))", Kind: "cmp"},
		Expr{Text: "'x' != 'y'", Ast: "(cmp != (str x) (str y))", Kind: "cmp"},
		Expr{Text: "null == null", Ast: "(cmp == (null) (null))", Kind: "cmp"})
	// regex
	for _, p := range paths {
		out = append(out, Expr{Text: p.Text + " =~ /x/", Ast: fmt.Sprintf("(regex %s \"x\")", p.Ast), RootOp: p.Root, Kind: "regex"})
	}
	// escapes inside the regular expression: an escaped slash, and an escaped backslash right before the closing slash
	out = append(out,
		Expr{Text: `@.a =~ /x\\/`, Ast: `(regex (cur (name a)) "x\\\\")`, Kind: "regex"},
		Expr{Text: `@.a =~ /a\/b/`, Ast: `(regex (cur (name a)) "a\\/b")`, Kind: "regex"},
		Expr{Text: `@.a=~/\\/`, Ast: `(regex (cur (name a)) "\\\\")`, Kind: "regex"})
	return out
}

func existences(tier string) []Expr {
	out := []Expr{
		{Text: "@.a", Ast: "(exists (cur (name a)))", Kind: "exists"},
		{Text: "@.b", Ast: "(exists (cur (name b)))", Kind: "exists"},
		{Text: "$.b", Ast: "(exists (root (name b)))", RootOp: true, Kind: "exists"},
		{Text: "@[0]", Ast: "(exists (cur (union (i 0))))", Kind: "exists"},
		{Text: "@.*", Ast: "(exists (cur (wild)))", Kind: "exists"},
		{Text: "!@.a", Ast: "(not (exists (cur (name a))))", Kind: "not"},
		{Text: "!$.a", Ast: "(not (exists (root (name a))))", RootOp: true, Kind: "not"},
	}
	out = append(out,
		Expr{Text: "@[?(@ == $.b)]", Ast: "(exists (cur (filter (cmp == (cur) (root (name b))))))", RootOp: true, Kind: "exists"},
		Expr{Text: "@.a[?(@.a == $.a)]", Ast: "(exists (cur (name a) (filter (cmp == (cur (name a)) (root (name a))))))", RootOp: true, Kind: "exists"},
		Expr{Text: "$[?(@.a)]", Ast: "(exists (root (filter (exists (cur (name a))))))", RootOp: true, Kind: "exists"},
		Expr{Text: "(@.a == 'x')", Ast: "(cmp == (cur (name a)) (str x))", Kind: "cmp"},
		Expr{Text: "(@.a == 7.5e1) && (@.b =~ /x/)", Ast: "(and (cmp == (cur (name a)) (numh lit)) (regex (cur (name b)) \"x\"))", Holes: "7.5e1=lit:f", Kind: "and"},
	)
	if tier == "thorough" {
		out = append(out,
			Expr{Text: "@", Ast: "(exists (cur))", Kind: "exists"},
			Expr{Text: "@.a.b", Ast: "(exists (cur (name a) (name b)))", Kind: "exists"},
			Expr{Text: "$..a", Ast: "(exists (root (desc (name a))))", RootOp: true, Kind: "exists"},
			Expr{Text: "@[0:1]", Ast: "(exists (cur (union (s 0 1 _))))", Kind: "exists"},
			Expr{Text: "@['a','b']", Ast: "(exists (cur (multi (n a) (n b))))", Kind: "exists"},
			Expr{Text: "! @.b", Ast: "(not (exists (cur (name b))))", Kind: "not"},
		)
	}
	return out
}

func combine(a Expr, op string, b Expr) Expr {
	name := "and"
	if op == "||" {
		name = "or"
	}
	return Expr{Text: a.Text + " " + op + " " + b.Text, Ast: fmt.Sprintf("(%s %s %s)", name, a.Ast, b.Ast),
		Holes: joinHoles(a.Holes, b.Holes), RootOp: a.RootOp || b.RootOp, Funcs: a.Funcs || b.Funcs, Kind: name}
}

func paren(a Expr) Expr {
	a.Text = "(" + a.Text + ")"
	return a
}

// filterExprs returns the filter corpus of a tier: atoms plus logical
// combinations (all pairs over a reduced atom set; deeper nesting sampled).
func filterExprs(tier string, rng *rand.Rand) []Expr {
	atoms := append(existences(tier), comparisons(tier)...)
	out := append([]Expr(nil), atoms...)
	// reduced atom set for combinations
	var red []Expr
	pick := map[string]bool{"@.a": true, "!@.a": true, "$.b": true, "@.b": true, "@.a == 7.5e1": true, "$.b == @.a": true, "$.a != $.b": true,
		"@.a != 'x'": true, "@.a < 7.5e1": true, "$.b == $.a": true, "@.a =~ /x/": true, "!$.a": true, "7.5e1 >= @.b": true, "$.b != @.b": true}
	for _, a := range atoms {
		if pick[a.Text] {
			red = append(red, a)
		}
	}
	for _, a := range red {
		for _, b := range red {
			if a.Text == b.Text {
				continue
			}
			out = append(out, combine(a, "&&", b), combine(a, "||", b))
		}
	}
	// depth 2: (A op B) op C with parentheses, sampled
	n3 := 60
	if tier == "thorough" {
		n3 = 600
	}
	for i := 0; i < n3; i++ {
		a, b, c := red[rng.Intn(len(red))], red[rng.Intn(len(red))], red[rng.Intn(len(red))]
		op1 := []string{"&&", "||"}[rng.Intn(2)]
		op2 := []string{"&&", "||"}[rng.Intn(2)]
		var e Expr
		switch rng.Intn(3) {
		case 0:
			e = combine(paren(combine(a, op1, b)), op2, c)
		case 1:
			e = combine(a, op1, paren(combine(b, op2, c)))
		default:
			// precedence without parentheses: && binds tighter than ||
			if op1 == "||" && op2 == "&&" {
				e = combine(a, "||", combine(b, "&&", c))
				e.Text = a.Text + " || " + b.Text + " && " + c.Text
			} else {
				e = combine(combine(a, op1, b), op2, c)
			}
		}
		out = append(out, e)
	}
	return out
}

func filterStep(e Expr) Step {
	return Step{Text: "[?(" + e.Text + ")]", Ast: "(filter " + e.Ast + ")", Kind: "filter", Multi: true, Holes: e.Holes, Depth: 2, RootOp: e.RootOp, Funcs: e.Funcs}
}

// baseSteps is the step alphabet (without general filters).
func baseSteps(tier string) []Step {
	steps := []Step{
		st(".a", "(name a)", "name", false),
		st("['b']", "(name b)", "name", false),
		st("['a','b']", "(multi (n a) (n b))", "multi", true),
		st("['b','a']", "(multi (n b) (n a))", "multi", true),
		st("[*,*]", "(multi * *)", "multi", true),
		st("['a',*]", "(multi (n a) *)", "multimix", true),
		st(".*", "(wild)", "wild", true),
		st("[0]", "(union (i 0))", "index", false),
		st("[-1]", "(union (i -1))", "index", false),
		{Text: "[7001]", Ast: "(union (ih ix))", Kind: "index", Holes: "7001=ix", Depth: 1},
		st("[1,0]", "(union (i 1) (i 0))", "union", true),
		st("[0,0]", "(union (i 0) (i 0))", "union", true),
		st("[*,0]", "(union * (i 0))", "union", true),
		st("[1:]", "(union (s 1 _ _))", "slice", true),
		st("[::-1]", "(union (s _ _ -1))", "slice", true),
		st("[::2]", "(union (s _ _ 2))", "slice", true),
		st("[1::-2]", "(union (s 1 _ -2))", "slice", true),
		{Text: "[7002:7003]", Ast: "(union (s (h lo) (h hi) _))", Kind: "slice", Multi: true, Holes: "7002=lo;7003=hi", Depth: 1},
		{Text: "..a", Ast: "(desc (name a))", Kind: "desc", Multi: true, Depth: 2},
		{Text: "..*", Ast: "(desc (wild))", Kind: "desc", Multi: true, Depth: 2},
		{Text: "..['a','b']", Ast: "(desc (multi (n a) (n b)))", Kind: "desc", Multi: true, Depth: 2},
		{Text: "..[0]", Ast: "(desc (union (i 0)))", Kind: "desc", Multi: true, Depth: 2},
		{Text: "..[?(@.a)]", Ast: "(desc (filter (exists (cur (name a)))))", Kind: "desc", Multi: true, Depth: 2},
		filterStep(Expr{Text: "@.a", Ast: "(exists (cur (name a)))"}),
		filterStep(Expr{Text: "@.a == 7.5e1", Ast: "(cmp == (cur (name a)) (numh lit))", Holes: "7.5e1=lit:f"}),
	}
	if tier == "thorough" {
		steps = append(steps,
			st(".b", "(name b)", "name", false),
			st("[\"a\"]", "(name a)", "name", false),
			st("['a','a']", "(multi (n a) (n a))", "multi", true),
			st("[*]", "(wild)", "wild", true),
			st("[1]", "(union (i 1))", "index", false),
			st("[0,1:2]", "(union (i 0) (s 1 2 _))", "union", true),
			st("[0:2]", "(union (s 0 2 _))", "slice", true),
			st("[1::3]", "(union (s 1 _ 3))", "slice", true),
			Step{Text: "..[*]", Ast: "(desc (wild))", Kind: "desc", Multi: true, Depth: 2},
			Step{Text: "..[0,1]", Ast: "(desc (union (i 0) (i 1)))", Kind: "desc", Multi: true, Depth: 2},
			Step{Text: "..[0:1]", Ast: "(desc (union (s 0 1 _)))", Kind: "desc", Multi: true, Depth: 2},
			Step{Text: "..[*,*]", Ast: "(desc (multi * *))", Kind: "desc", Multi: true, Depth: 2},
			filterStep(Expr{Text: "$.b == @.a", Ast: "(cmp == (root (name b)) (cur (name a)))", RootOp: true}),
		)
	}
	return steps
}

func funcSteps() []Step {
	return []Step{
		{Text: ".f()", Ast: "(func f)", Kind: "func", Funcs: true},
		{Text: ".agg()", Ast: "(agg agg)", Kind: "agg", Funcs: true},
		{Text: ".fail()", Ast: "(func fail)", Kind: "func", Funcs: true},
		{Text: ".failnum()", Ast: "(func failnum)", Kind: "func", Funcs: true},
		{Text: ".aggfail()", Ast: "(agg aggfail)", Kind: "agg", Funcs: true},
		{Text: ".g()", Ast: "(func g)", Kind: "func", Funcs: true},
		{Text: ".agh()", Ast: "(agg agh)", Kind: "agg", Funcs: true},
		{Text: ".failrt()", Ast: "(func failrt)", Kind: "func", Funcs: true},
	}
}

// Path is a corpus entry.
type Path struct {
	Text   string
	Ast    string
	Steps  []Step
	Holes  string
	Depth  int
	Funcs  bool
	RootOp bool
	Texts  string // step texts as written, one per line (two lines for `..X`)
}

func mkPath(steps ...Step) Path {
	p := Path{Text: "$", Steps: steps}
	asts := []string{}
	used := map[string]bool{}
	for _, s := range steps {
		// the same hole text may not be used twice in one path (it would denote one value twice: fine) -
		// but the same step twice shares its hole, which is intended.
		p.Text += s.Text
		asts = append(asts, s.Ast)
		if s.Holes != "" && !used[s.Holes] {
			p.Holes = joinHoles(p.Holes, s.Holes)
			used[s.Holes] = true
		}
		p.Depth += s.Depth
		if s.Kind == "func" || s.Kind == "agg" {
			p.Depth += 0
		}
		p.Funcs = p.Funcs || s.Funcs
		p.RootOp = p.RootOp || s.RootOp
	}
	for _, s := range steps {
		if s.Kind == "agg" {
			// the values handed to an aggregate may themselves be arrays, and a single-valued
			// path selecting an array hands over its elements, which may be arrays again
			p.Depth += 2
			break
		}
	}
	p.Ast = "(path " + strings.Join(asts, " ") + ")"
	var texts []string
	for _, s := range steps {
		if s.Kind == "desc" {
			texts = append(texts, "..", strings.TrimPrefix(s.Text, ".."))
		} else {
			texts = append(texts, s.Text)
		}
	}
	p.Texts = strings.Join(texts, "\n")
	return p
}

// stepPaths enumerates step sequences: all 1- and 2-step sequences over the
// alphabet, plus sampled (quick) or reduced-exhaustive (thorough) 3-step ones.
func stepPaths(tier string, rng *rand.Rand) []Path {
	steps := baseSteps(tier)
	var out []Path
	out = append(out, Path{Text: "$", Ast: "(path)", Depth: 0})
	for _, a := range steps {
		out = append(out, mkPath(a))
	}
	for _, a := range steps {
		for _, b := range steps {
			out = append(out, mkPath(a, b))
		}
	}
	// 3-step: one per ordered triple of kinds (quick) / sampled more (thorough)
	byKind := map[string][]Step{}
	var kinds []string
	for _, s := range steps {
		if _, ok := byKind[s.Kind]; !ok {
			kinds = append(kinds, s.Kind)
		}
		byKind[s.Kind] = append(byKind[s.Kind], s)
	}
	reps := 1
	if tier == "thorough" {
		reps = 3
	}
	for r := 0; r < reps; r++ {
		for _, ka := range kinds {
			for _, kb := range kinds {
				for _, kc := range kinds {
					a := byKind[ka][rng.Intn(len(byKind[ka]))]
					b := byKind[kb][rng.Intn(len(byKind[kb]))]
					c := byKind[kc][rng.Intn(len(byKind[kc]))]
					out = append(out, mkPath(a, b, c))
				}
			}
		}
	}
	return out
}

// funcPaths: every step kind (and 2-step kind sequence) followed by 1..3 functions.
// funcPathsCore: every function alone (`$.f()`) and after every step of the alphabet.
func funcPathsCore(tier string) []Path {
	var out []Path
	fns := funcSteps()
	for _, f := range fns {
		out = append(out, mkPath(f))
	}
	for _, a := range baseSteps(tier) {
		for _, f := range fns {
			out = append(out, mkPath(a, f))
		}
	}
	return out
}

func funcPaths(tier string, rng *rand.Rand) []Path {
	steps := baseSteps(tier)
	fns := funcSteps()
	out := funcPathsCore(tier)
	for _, a := range steps {
		for i := 0; i < 3; i++ {
			f1, f2 := fns[rng.Intn(len(fns))], fns[rng.Intn(len(fns))]
			out = append(out, mkPath(a, f1, f2))
		}
	}
	n2 := 150
	if tier == "thorough" {
		n2 = 1200
	}
	for i := 0; i < n2; i++ {
		a, b := steps[rng.Intn(len(steps))], steps[rng.Intn(len(steps))]
		k := 1 + rng.Intn(3)
		seq := []Step{a, b}
		for j := 0; j < k; j++ {
			seq = append(seq, fns[rng.Intn(len(fns))])
		}
		out = append(out, mkPath(seq...))
	}
	return append(out, funcFilterPaths()...)
}

// funcFilterPaths: functions inside filter operands.
func funcFilterPaths() []Path {
	var out []Path
	inFilter := []Expr{
		{Text: "@.f() == 7.5e1", Ast: "(cmp == (cur (func f)) (numh lit))", Holes: "7.5e1=lit:f", Funcs: true},
		{Text: "@.a.f()", Ast: "(exists (cur (name a) (func f)))", Funcs: true},
		{Text: "@.*.agg() == $.b", Ast: "(cmp == (cur (wild) (agg agg)) (root (name b)))", Funcs: true, RootOp: true},
		{Text: "@.fail()", Ast: "(exists (cur (func fail)))", Funcs: true},
		{Text: "$.*.agg().agh() == @.a", Ast: "(cmp == (root (wild) (agg agg) (agg agh)) (cur (name a)))", Funcs: true, RootOp: true},
		{Text: "@.agg().f() != 'x'", Ast: "(cmp != (cur (agg agg) (func f)) (str x))", Funcs: true},
		{Text: "@.*.cnt() > 1", Ast: "(cmp > (cur (wild) (agg cnt)) (num 1))", Funcs: true},
		{Text: "@.cnt() == 1", Ast: "(cmp == (cur (agg cnt)) (num 1))", Funcs: true},
		{Text: "$.*.cnt() >= @.a", Ast: "(cmp >= (root (wild) (agg cnt)) (cur (name a)))", Funcs: true, RootOp: true},
		{Text: "@.a.cnt() != 2", Ast: "(cmp != (cur (name a) (agg cnt)) (num 2))", Funcs: true},
		{Text: "@.failrt()", Ast: "(exists (cur (func failrt)))", Funcs: true},
	}
	for _, e := range inFilter {
		out = append(out, mkPath(filterStep(e)), mkPath(st(".a", "(name a)", "name", false), filterStep(e)))
	}
	return out
}

// filterPaths: `$[?(Q)]` and `$.a[?(Q)]` for every Q of the filter corpus.
func filterPaths(tier string, rng *rand.Rand) []Path {
	var out []Path
	for _, e := range filterExprs(tier, rng) {
		out = append(out, mkPath(filterStep(e)))
	}
	return out
}

// holeSlicePaths: the slice whose start, end and step are all symbolic int64 holes, alone and next to other steps.
// (Kept out of the general alphabet: every combination with it costs thousands of solver queries.)
func holeSlicePaths() []Path {
	hs := Step{Text: "[7005:7006:7007]", Ast: "(union (s (h s3) (h e3) (h t3)))", Kind: "slice", Multi: true, Holes: "7005=s3;7006=e3;7007=t3", Depth: 1}
	a := st(".a", "(name a)", "name", false)
	i0 := st("[0]", "(union (i 0))", "index", false)
	w := st(".*", "(wild)", "wild", true)
	return []Path{mkPath(hs), mkPath(a, hs), mkPath(hs, a), mkPath(i0, hs), mkPath(hs, i0), mkPath(w, hs), mkPath(hs, hs),
		mkPath(Step{Text: "..[7005:7006:7007]", Ast: "(desc (union (s (h s3) (h e3) (h t3))))", Kind: "desc", Multi: true, Holes: "7005=s3;7006=e3;7007=t3", Depth: 2})}
}

// literalPaths: comparisons between two literals (the literal is the left operand the comparators write into).
func literalPaths() []Path {
	var out []Path
	for _, e := range []Expr{
		{Text: "1 == 1", Ast: "(cmp == (num 1) (num 1))"}, {Text: "1 == 2", Ast: "(cmp == (num 1) (num 2))"}, {Text: "1 != 2", Ast: "(cmp != (num 1) (num 2))"},
		{Text: "1 < 2", Ast: "(cmp < (num 1) (num 2))"}, {Text: "2 <= 1", Ast: "(cmp <= (num 2) (num 1))"}, {Text: "2 > 7.5e1", Ast: "(cmp > (num 2) (numh lit))", Holes: "7.5e1=lit:f"},
		{Text: "'x' != 'y'", Ast: "(cmp != (str x) (str y))"}, {Text: "'x' == 'x'", Ast: "(cmp == (str x) (str x))"}, {Text: "null == null", Ast: "(cmp == (null) (null))"},
		{Text: "true == false", Ast: "(cmp == (bool true) (bool false))"}, {Text: "1 == 2 || @.a", Ast: "(or (cmp == (num 1) (num 2)) (exists (cur (name a))))"},
		{Text: "@.a && 'x' == 'y'", Ast: "(and (exists (cur (name a))) (cmp == (str x) (str y)))"},
	} {
		out = append(out, mkPath(filterStep(e)))
	}
	return out
}

// nestedFilterPaths: a filter inside a filter operand (operand parsing nests; `$` inside refers to the document).
func nestedFilterPaths() []Path {
	var out []Path
	a := st(".a", "(name a)", "name", false)
	for _, e := range []Expr{
		{Text: "@.a[?(@.b)]", Ast: "(exists (cur (name a) (filter (exists (cur (name b))))))"},
		{Text: "@[?(@.a)]", Ast: "(exists (cur (filter (exists (cur (name a))))))"},
		{Text: "@[?(@ == $.b)]", Ast: "(exists (cur (filter (cmp == (cur) (root (name b))))))", RootOp: true},
		{Text: "@[?(@.a == 7.5e1)]", Ast: "(exists (cur (filter (cmp == (cur (name a)) (numh lit)))))", Holes: "7.5e1=lit:f"},
		{Text: "@.a[?(@[?(@.a)])]", Ast: "(exists (cur (name a) (filter (exists (cur (filter (exists (cur (name a)))))))))"},
		{Text: "$[?(@.a)] && @.b", Ast: "(and (exists (root (filter (exists (cur (name a)))))) (exists (cur (name b))))", RootOp: true},
		// (not nested, but fixed members of the same corpora) escapes inside a regular expression
		{Text: `@.a =~ /x\\/`, Ast: `(regex (cur (name a)) "x\\\\")`},
		{Text: `@.a =~ /a\/b/`, Ast: `(regex (cur (name a)) "a\\/b")`},
		{Text: `@.a=~/\\/`, Ast: `(regex (cur (name a)) "\\\\")`},
	} {
		out = append(out, mkPath(filterStep(e)), mkPath(filterStep(e), a), mkPath(a, filterStep(e)))
	}
	return out
}

// widePaths produce more than 16 results from small documents (result buffers grow and are reallocated).
func widePaths() []Path {
	rep := func(s string, n int) string { return strings.TrimSuffix(strings.Repeat(s+",", n), ",") }
	repAst := func(s string, n int) string { return strings.TrimSuffix(strings.Repeat(s+" ", n), " ") }
	return []Path{
		mkPath(Step{Text: "[" + rep("0", 20) + "]", Ast: "(union " + repAst("(i 0)", 20) + ")", Kind: "union", Multi: true, Depth: 1}),
		mkPath(Step{Text: "[" + rep("*", 10) + "]", Ast: "(multi " + repAst("*", 10) + ")", Kind: "multi", Multi: true, Depth: 1}),
		mkPath(Step{Text: "[" + rep("'a'", 18) + "]", Ast: "(multi " + repAst("(n a)", 18) + ")", Kind: "multi", Multi: true, Depth: 1}),
		mkPath(Step{Text: "[" + rep("0", 9) + "]", Ast: "(union " + repAst("(i 0)", 9) + ")", Kind: "union", Multi: true, Depth: 1},
			Step{Text: "[*,*]", Ast: "(multi * *)", Kind: "multi", Multi: true, Depth: 1}),
		mkPath(Step{Text: "[" + rep("*", 9) + "]", Ast: "(multi " + repAst("*", 9) + ")", Kind: "multi", Multi: true, Depth: 1},
			Step{Text: ".agg()", Ast: "(agg agg)", Kind: "agg", Funcs: true}),
	}
}

func dedupPaths(ps []Path) []Path {
	seen := map[string]bool{}
	var out []Path
	for _, p := range ps {
		if seen[p.Text] {
			continue
		}
		seen[p.Text] = true
		out = append(out, p)
	}
	return out
}

// unionPaths: every bracket made of one or two subscripts of a small alphabet
// of indexes, slices (touching, overlapping, reversed) and `*`, written in both
// orders, at the root (`$[x,y]`) and below a name (`$.a[x,y]`), plus a few
// three-subscript brackets. They are evaluated on arrays of 0..5 elements
// (longArrayJobs): order as written, capacity/aliasing of the source array,
// merging of neighbouring subscripts.
func unionPaths() []Path {
	type sub struct{ text, ast string }
	subs := []sub{
		{"0", "(i 0)"}, {"2", "(i 2)"}, {"-1", "(i -1)"}, {"4", "(i 4)"},
		{"0:2", "(s 0 2 _)"}, {"1:3", "(s 1 3 _)"}, {"2:4", "(s 2 4 _)"}, {"3:", "(s 3 _ _)"},
		{"::-1", "(s _ _ -1)"}, {"1::2", "(s 1 _ 2)"}, {"3:0:-1", "(s 3 0 -1)"}, {"*", "*"},
	}
	a := st(".a", "(name a)", "name", false)
	var out []Path
	mk := func(text, ast string, n int) {
		s := Step{Text: "[" + text + "]", Ast: "(union " + ast + ")", Kind: "union", Multi: true, Depth: 1}
		if n == 1 && !strings.ContainsAny(text, ":*") {
			s.Kind, s.Multi = "index", false
		}
		if text == "*" {
			s = st("[*]", "(wild)", "wild", true)
		}
		out = append(out, mkPath(s), mkPath(a, s))
	}
	for _, x := range subs {
		mk(x.text, x.ast, 1)
		for _, y := range subs {
			if x.text == "*" && y.text == "*" {
				continue // `[*,*]` is a multi-identifier, in the general alphabet
			}
			mk(x.text+","+y.text, x.ast+" "+y.ast, 2)
		}
	}
	mk("2:4,0:2,4", "(s 2 4 _) (s 0 2 _) (i 4)", 3)
	mk("0:2,2:4,0", "(s 0 2 _) (s 2 4 _) (i 0)", 3)
	mk("3:5,1:3,0", "(s 3 5 _) (s 1 3 _) (i 0)", 3)
	mk("0,1,2", "(i 0) (i 1) (i 2)", 3)
	mk("*,0:2,-1", "* (s 0 2 _) (i -1)", 3)
	return out
}

// returnedArgumentPaths: paths ending in the aggregate `aggid`, which returns
// the argument list it was handed.
func returnedArgumentPaths() []Path {
	id := Step{Text: ".aggid()", Ast: "(agg aggid)", Kind: "agg", Funcs: true}
	var out []Path
	for _, a := range []Step{
		st(".*", "(wild)", "wild", true), st("[*]", "(wild)", "wild", true), st(".a", "(name a)", "name", false),
		st("[0:2]", "(union (s 0 2 _))", "slice", true), st("['a','b']", "(multi (n a) (n b))", "multi", true),
		{Text: "..a", Ast: "(desc (name a))", Kind: "desc", Multi: true, Depth: 2},
		filterStep(Expr{Text: "@.a", Ast: "(exists (cur (name a)))"}),
	} {
		out = append(out, mkPath(a, id))
	}
	out = append(out, mkPath(id), mkPath(st(".*", "(wild)", "wild", true), id, id),
		mkPath(st(".*", "(wild)", "wild", true), Step{Text: ".f()", Ast: "(func f)", Kind: "func", Funcs: true}, id))
	return out
}

// multiNamePaths: multi-name selectors with three names in every order over the
// key alphabet {a,b,c} (and with a repeated name), at the root, below a name
// and below a wildcard: more names than the object has members, names written
// in non-ascending order.
func multiNamePaths() []Path {
	var out []Path
	a := st(".a", "(name a)", "name", false)
	w := st("[*]", "(wild)", "wild", true)
	for _, names := range [][]string{{"c", "a", "b"}, {"b", "a", "c"}, {"c", "b", "a"}, {"a", "c", "b"}, {"b", "c", "a"}, {"b", "a", "b"}, {"c", "c", "a"}, {"c", "a"}, {"c", "b"}} {
		var ts, as []string
		for _, n := range names {
			ts = append(ts, "'"+n+"'")
			as = append(as, "(n "+n+")")
		}
		m := st("["+strings.Join(ts, ",")+"]", "(multi "+strings.Join(as, " ")+")", "multi", true)
		out = append(out, mkPath(m), mkPath(a, m), mkPath(w, m))
	}
	return out
}
