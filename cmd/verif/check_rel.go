package main

import (
	"fmt"
	"math/rand"
	"strings"

	"verif/engine"
)

func relJob(id, harness string, params map[string]string, p Path, tier string) *engine.Job {
	cfgs := evalDocCfgs(p, tier, false)
	j := &engine.Job{ID: id, Harness: harness, Params: params, Docs: map[string]*engine.DocCfg{"doc": cfgs[0]}, Budget: evalBudget(tier)}
	for _, c := range cfgs[1:] {
		j.Narrow = append(j.Narrow, map[string]*engine.DocCfg{"doc": c})
	}
	return j
}

// c08Jobs: every split P·Q of corpus paths (Q free of $-rooted operands and aggregates).
func c08Jobs(tier string, seed int64) []*engine.Job {
	rng := rand.New(rand.NewSource(seed + 8))
	var jobs []*engine.Job
	sp := stepPaths(tier, rng)
	two := pathsWith(sp, func(p Path) bool { return nSteps(p) == 2 })
	three := samplePaths(pathsWith(sp, func(p Path) bool { return nSteps(p) == 3 }), tierN(tier, 150, 3000), rng)
	fn := samplePaths(pathsWith(funcPaths(tier, rng), func(p Path) bool { return nSteps(p) >= 2 }), tierN(tier, 100, 1500), rng)
	n := 0
	for _, p := range dedupPaths(append(append(two, three...), fn...)) {
		for cut := 1; cut < len(p.Steps); cut++ {
			q := p.Steps[cut:]
			bad := false
			for _, s := range q {
				if s.RootOp || s.Kind == "agg" {
					bad = true
				}
			}
			if bad {
				continue
			}
			if len(p.Steps) == 3 && rng.Intn(2) == 0 {
				continue
			}
			pp, qq := mkPath(p.Steps[:cut]...), mkPath(q...)
			cfg := ""
			if p.Funcs {
				cfg = "funcs"
			}
			jobs = append(jobs, relJob(fmt.Sprintf("c08-%d", n), "zzH_C08",
				map[string]string{"path": p.Text, "p": pp.Text, "q": qq.Text, "holes": p.Holes, "config": cfg}, p, tier))
			n++
		}
	}
	// decomposition instances: union / multi-name = concatenation of singles
	parts := []struct {
		path, parts string
		objOnly     bool
		depth       int
	}{
		{"$[0,1]", "$[0]|$[1]", false, 1}, {"$[1,0]", "$[1]|$[0]", false, 1}, {"$[0,0]", "$[0]|$[0]", false, 1},
		{"$[*,0]", "$[*]|$[0]", false, 1}, {"$[0,1:2]", "$[0]|$[1:2]", false, 1}, {"$[-1,::-1]", "$[-1]|$[::-1]", false, 1},
		{"$[7001,7002:7003]", "$[7001]|$[7002:7003]", false, 1},
		{"$['a','b']", "$['a']|$['b']", false, 1}, {"$['b','a']", "$['b']|$['a']", false, 1}, {"$['a','a']", "$['a']|$['a']", false, 1},
		{"$[*,*]", "$[*]|$[*]", false, 1}, {"$['a',*]", "$['a']|$[*]", true, 1}, {"$[*,'b']", "$[*]|$['b']", true, 1},
		{"$['a','b'].a", "$['a'].a|$['b'].a", false, 2}, {"$[0,1].a", "$[0].a|$[1].a", false, 2}, {"$['a','b'][0]", "$['a'][0]|$['b'][0]", false, 2},
		{"$.a[0,1]", "$.a[0]|$.a[1]", false, 2}, {"$..['a','b']", "$..['a']|$..['b']", false, 3},
	}
	for i, c := range parts {
		holes := ""
		if strings.Contains(c.path, "7001") {
			holes = "7001=i;7002=lo;7003=hi"
		}
		params := map[string]string{"path": c.path, "parts": c.parts, "holes": holes, "config": "", "objects_only": "0"}
		if c.objOnly {
			params["objects_only"] = "1"
		}
		if strings.HasPrefix(c.path, "$[") && !strings.Contains(c.path, "'") {
			// a union applies to arrays only, while its single selector `[*]` alone also applies to objects
			params["objects_only"] = "arrays"
		}
		if i == len(parts)-1 {
			// `..['a','b']` is not the concatenation of `..a` and `..b` (interleaving per container): skip
			continue
		}
		jobs = append(jobs, relJob(fmt.Sprintf("c08parts-%d", i), "zzH_C08_parts", params, Path{Depth: c.depth}, tier))
	}
	// `..X` = X over every container in pre-order
	xs := []string{"a", "*", "['a','b']", "[0]", "[*]", "[0,1]", "[0:1]", "[?(@.a)]", "['b']", "[*,*]", "[-1]", "[?(@.a == 7.5e1)]", "[1:]"}
	for i, x := range xs {
		q := "$" + x
		if x == "a" || x == "*" {
			q = "$." + x
		}
		holes := ""
		if strings.Contains(x, "7.5e1") {
			holes = "7.5e1=lit:f"
		}
		jobs = append(jobs, relJob(fmt.Sprintf("c08desc-%d", i), "zzH_C08_desc",
			map[string]string{"path": "$.." + x, "q": q, "holes": holes, "config": ""}, Path{Depth: 3, Steps: []Step{{Kind: "desc"}}}, tier))
		for _, sh := range []string{"obj", "arr"} {
			jobs = append(jobs, relJob(fmt.Sprintf("c08shared-%s-%d", sh, i), "zzH_C08_desc",
				map[string]string{"path": "$.." + x, "q": q, "holes": holes, "config": "", "shared": sh}, Path{Depth: 2, Steps: []Step{{Kind: "desc"}}}, tier))
		}
		jobs = append(jobs, relJob(fmt.Sprintf("c08desc2-%d", i), "zzH_C08",
			map[string]string{"path": "$.a.." + x, "p": "$.a", "q": "$.." + x, "holes": holes, "config": ""}, Path{Depth: 3, Steps: []Step{{Kind: "desc"}}}, tier))
	}
	return jobs
}

func c09Doc(tier string) map[string]*engine.DocCfg {
	c := docCfg(2, tierN(tier, 2, 3), []string{"a", "b"}, jsonScalars)
	c.RootKinds = engine.KMap | engine.KArray
	c.MaxLenAt = map[int]int{1: 1}
	return map[string]*engine.DocCfg{"doc": c}
}

// mirrored returns the comparison with swapped operands and mirrored operator.
func mirrorOp(op string) string {
	switch op {
	case "<":
		return ">"
	case "<=":
		return ">="
	case ">":
		return "<"
	case ">=":
		return "<="
	}
	return op
}

func c09Jobs(tier string, seed int64) []*engine.Job {
	rng := rand.New(rand.NewSource(seed + 9))
	var jobs []*engine.Job
	n := 0
	add := func(rel string, params map[string]string, holes string) {
		params["rel"] = rel
		params["holes"] = holes
		jobs = append(jobs, &engine.Job{ID: fmt.Sprintf("c09-%s-%d", rel, n), Harness: "zzH_C09", Params: params, Docs: c09Doc(tier),
			MaxPaths: 400000})
		n++
	}
	atoms := append(existences(tier), comparisons(tier)...)
	// and / or over pairs of atoms
	pairs := tierN(tier, 160, 2500)
	for i := 0; i < pairs; i++ {
		a, b := atoms[rng.Intn(len(atoms))], atoms[rng.Intn(len(atoms))]
		rel := []string{"and", "or"}[i%2]
		add(rel, map[string]string{"a": a.Text, "b": b.Text, "atoms": "1"}, joinHoles(a.Holes, b.Holes))
	}
	// nested expressions as A and B
	exprs := filterExprs(tier, rng)
	for i := 0; i < tierN(tier, 60, 1200); i++ {
		a, b := exprs[rng.Intn(len(exprs))], exprs[rng.Intn(len(exprs))]
		rel := []string{"and", "or"}[i%2]
		add(rel, map[string]string{"a": a.Text, "b": b.Text, "atoms": "0"}, joinHoles(a.Holes, b.Holes))
	}
	// complement: !p vs p ; x != y vs x == y
	for _, p := range pathOperands(tier) {
		add("complement", map[string]string{"a": p.Text, "b": "!" + p.Text}, "")
	}
	paths, lits := pathOperands(tier), literalOperands()
	var ops []Operand
	ops = append(ops, paths...)
	ops = append(ops, lits...)
	for _, l := range ops {
		for _, r := range ops {
			if l.Cur && r.Cur {
				continue
			}
			if l.Literal && r.Literal && rng.Intn(4) != 0 {
				continue
			}
			if tier != "thorough" && rng.Intn(3) != 0 {
				continue
			}
			h := joinHoles(l.Holes, r.Holes)
			add("complement", map[string]string{"a": l.Text + " == " + r.Text, "b": l.Text + " != " + r.Text}, h)
			add("same", map[string]string{"a": l.Text + " == " + r.Text, "b": r.Text + " == " + l.Text}, h)
			if l.Numeric && r.Numeric {
				for _, op := range []string{"<", "<=", ">", ">="} {
					add("same", map[string]string{"a": l.Text + " " + op + " " + r.Text, "b": r.Text + " " + mirrorOp(op) + " " + l.Text}, h)
				}
			}
		}
	}
	// <= / >= against a number literal
	for _, p := range paths {
		for _, lit := range []Operand{lits[0], lits[len(lits)-1]} {
			h := lit.Holes
			add("le", map[string]string{"a": p.Text + " <= " + lit.Text, "b": p.Text + " < " + lit.Text, "c": p.Text + " == " + lit.Text}, h)
			add("le", map[string]string{"a": p.Text + " >= " + lit.Text, "b": p.Text + " > " + lit.Text, "c": p.Text + " == " + lit.Text}, h)
			add("le", map[string]string{"a": lit.Text + " >= " + p.Text, "b": lit.Text + " > " + p.Text, "c": lit.Text + " == " + p.Text}, h)
		}
	}
	return jobs
}

func accPaths(tier string, rng *rand.Rand) []Path {
	sp := stepPaths(tier, rng)
	one2 := pathsWith(sp, func(p Path) bool { return nSteps(p) <= 2 })
	three := samplePaths(pathsWith(sp, func(p Path) bool { return nSteps(p) == 3 }), tierN(tier, 100, 2000), rng)
	fn := samplePaths(funcPaths(tier, rng), tierN(tier, 250, 3000), rng)
	fl := samplePaths(filterPaths(tier, rng), tierN(tier, 100, 2000), rng)
	fn = append(fn, funcFilterPaths()...)
	return dedupPaths(append(append(append(append(one2, three...), fn...), fl...), nestedFilterPaths()...))
}

func init() {
	relStubs := append([]string{"user functions: harness closures (injective wrappers / failing functions) that log their arguments"}, commonStubs...)
	register(&CheckDef{
		ID:        "C08",
		Level:     "model_checking",
		Technique: "relational bounded symbolic execution: three real retrievals (P.Q, P, $Q on each result of P) on one lazy symbolic document; equality of the sequences decided per path by z3",
		Jobs:      c08Jobs,
		Bounds:    evalBounds,
		Stubs:     relStubs,
		Assumptions: append([]string{"a multi-identifier mixing names and `*` applied to an array is excluded from the 'concatenation of single selectors' instance (objects only): the statement does not settle it"},
			commonAssumptions...),
		ExpectLabels: []string{"compose-fails-iff-empty", "compose-values", "parts-values", "descent-values"},
	})
	register(&CheckDef{
		ID:         "C09",
		SolverDiff: true,
		Level:      "model_checking",
		Technique:  "relational bounded symbolic execution of filter pairs on one symbolic container; selections compared by member position (observed through accessors), assertions decided by z3",
		Jobs:       c09Jobs,
		Bounds: func(tier string) map[string]interface{} {
			return map[string]interface{}{"container": fmt.Sprintf("root array of 0..%d members or object over keys {a,b}; members of every kind, member objects with optional a, b; member arrays 0..1", tierN(tier, 2, 3)),
				"expressions": "existence tests, comparisons (6 operators x literal/@/$ operands, both orders), regex; combined with && and || (pairs of atoms; pairs of nested expressions)",
				"numbers":     "the number literal 7.5e1 is a symbolic finite float64; member floats symbolic (NaN, infinities, signed zero included)"}
		},
		Stubs:        relStubs,
		Assumptions:  append([]string{"member positions are observed by writing markers through Accessor.Set (C13 covers Set itself)"}, commonAssumptions...),
		ExpectLabels: []string{"logic-and", "logic-or", "complement", "mirror", "le-is-lt-or-eq", "members-restored"},
	})
	register(&CheckDef{
		ID:        "C12",
		Level:     "model_checking",
		Technique: "relational bounded symbolic execution: the same path parsed with and without accessor mode, evaluated on one lazy symbolic document with recording functions",
		Jobs: func(tier string, seed int64) []*engine.Job {
			rng := rand.New(rand.NewSource(seed + 12))
			var jobs []*engine.Job
			for i, p := range accPaths(tier, rng) {
				jobs = append(jobs, relJob(fmt.Sprintf("c12-%d", i), "zzH_C12", map[string]string{"path": p.Text, "holes": p.Holes}, p, tier))
			}
			return jobs
		},
		Bounds:       evalBounds,
		Stubs:        relStubs,
		Assumptions:  commonAssumptions,
		ExpectLabels: []string{"same-outcome", "same-count", "get-equals-plain-value", "same-function-arguments", "same-error"},
	})
	register(&CheckDef{
		ID:        "C13",
		Level:     "model_checking",
		Technique: "bounded symbolic execution with an explicit heap: Set through each accessor index, heap diff of the symbolic document against the location predicted by the reference evaluator",
		Jobs: func(tier string, seed int64) []*engine.Job {
			rng := rand.New(rand.NewSource(seed + 13))
			var jobs []*engine.Job
			for i, p := range accPaths(tier, rng) {
				if i%2 == 0 && p.Depth < 3 {
					p.Depth++ // the selected locations may hold containers themselves
				}
				jobs = append(jobs, relJob(fmt.Sprintf("c13-%d", i), "zzH_C13", map[string]string{"path": p.Text, "ast": p.Ast, "holes": p.Holes}, p, tier))
			}
			return jobs
		},
		Bounds:       evalBounds,
		Stubs:        relStubs,
		Assumptions:  append([]string{"the location oracle is the reference evaluator of C01"}, commonAssumptions...),
		ExpectLabels: []string{"set-nil-iff-not-a-location", "set-hits-predicted-location", "set-changed-nothing-else", "get-after-set", "get-is-live"},
	})
}
