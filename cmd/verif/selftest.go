package main

import (
	"encoding/json"
	"fmt"
	"go/ast"
	"go/parser"
	"go/token"
	"os"
	"path/filepath"
	"runtime"
	"strconv"
	"time"

	"verif/engine"
)

type suiteCase struct {
	Path, JSON string
	Line       int
}

// extractSuiteCases reads the (jsonpath, inputJSON) pairs of the repository's
// own table tests (cases that need no user functions / accessor mode).
func extractSuiteCases(repo string) ([]suiteCase, error) {
	fset := token.NewFileSet()
	f, err := parser.ParseFile(fset, filepath.Join(repo, "test_jsonpath_test.go"), nil, 0)
	if err != nil {
		return nil, err
	}
	var out []suiteCase
	ast.Inspect(f, func(n ast.Node) bool {
		cl, ok := n.(*ast.CompositeLit)
		if !ok {
			return true
		}
		var c suiteCase
		hasPath, hasJSON, skip := false, false, false
		for _, e := range cl.Elts {
			kv, ok := e.(*ast.KeyValueExpr)
			if !ok {
				return true
			}
			k, ok := kv.Key.(*ast.Ident)
			if !ok {
				return true
			}
			switch k.Name {
			case "jsonpath", "inputJSON":
				bl, ok := kv.Value.(*ast.BasicLit)
				if !ok || bl.Kind != token.STRING {
					skip = true
					continue
				}
				s, err := strconv.Unquote(bl.Value)
				if err != nil {
					skip = true
					continue
				}
				if k.Name == "jsonpath" {
					c.Path, hasPath = s, true
				} else {
					c.JSON, hasJSON = s, true
				}
			case "filters", "aggregates", "accessorMode", "unmarshalFunc":
				skip = true
			}
		}
		if hasPath && hasJSON && !skip {
			c.Line = fset.Position(cl.Pos()).Line
			out = append(out, c)
		}
		return true
	})
	return out, nil
}

var harnessSnap string

// harnessDir returns a private snapshot of /verif/harness taken once per
// process, so that a run is not disturbed by edits made while it is going.
func harnessDir() string {
	if harnessSnap != "" {
		return harnessSnap
	}
	src := filepath.Join(verifDir(), "harness")
	tmp, err := os.MkdirTemp("", "verif-harness-")
	if err != nil {
		return src
	}
	ents, _ := os.ReadDir(src)
	for _, e := range ents {
		if b, err := os.ReadFile(filepath.Join(src, e.Name())); err == nil {
			os.WriteFile(filepath.Join(tmp, e.Name()), b, 0o644)
		}
	}
	harnessSnap = tmp
	return tmp
}

func cleanupHarnessSnap() {
	if harnessSnap != "" {
		os.RemoveAll(harnessSnap)
	}
}

func loadProgram() (*engine.Program, error) {
	ov, err := engine.HarnessOverlay(repoDir(), harnessDir(), false)
	if err != nil {
		return nil, err
	}
	p, err := engine.Load(repoDir(), ov, "verif")
	if err != nil {
		return nil, err
	}
	w, err := engine.NewWorker(p, "z3", "")
	if err != nil {
		return nil, err
	}
	defer w.Close()
	if err := p.InitBase(w); err != nil {
		return nil, err
	}
	return p, nil
}

func nworkers() int {
	n := runtime.NumCPU()
	if s := os.Getenv("VERIF_WORKERS"); s != "" {
		if v, err := strconv.Atoi(s); err == nil && v > 0 {
			n = v
		}
	}
	return n
}

// cmdSelftest validates the engine: every suite pair is run concretely in
// the engine and natively; outputs must agree.
func cmdSelftest(flags map[string]string) int {
	t0 := time.Now()
	cases, err := extractSuiteCases(repoDir())
	if err != nil {
		fmt.Println("selftest: cannot read suite:", err)
		return 3
	}
	if l := flags["limit"]; l != "" {
		n, _ := strconv.Atoi(l)
		if n < len(cases) {
			cases = cases[:n]
		}
	}
	p, err := loadProgram()
	if err != nil {
		fmt.Println("selftest: load:", err)
		return 3
	}
	fmt.Printf("selftest: loaded SSA in %.1fs, %d suite pairs\n", time.Since(t0).Seconds(), len(cases))
	var jobs []*engine.Job
	for i, c := range cases {
		jobs = append(jobs, &engine.Job{ID: fmt.Sprintf("suite-%d-L%d", i, c.Line), Harness: "zzH_Concrete",
			Params: map[string]string{"path": c.Path, "json": c.JSON}})
	}
	res, stats, err := engine.RunJobs(p, jobs, nworkers(), "z3", true, "")
	if err != nil {
		fmt.Println("selftest:", err)
		return 3
	}
	var fixtures []*engine.Fixture
	var fxJob []int
	bad := 0
	for i, r := range res {
		if r.NAborted > 0 || len(r.Paths) < 1 || r.Paths[0].Fixture == nil {
			bad++
			if bad <= 15 {
				fmt.Printf("selftest: engine could not run %s %q: %v\n", jobs[i].ID, cases[i].Path, r.AbortMsgs)
			}
			continue
		}
		fixtures = append(fixtures, r.Paths[0].Fixture)
		fxJob = append(fxJob, i)
	}
	fmt.Printf("selftest: engine ran %d/%d pairs in %.1fs (%d steps)\n", len(fixtures), len(cases), time.Since(t0).Seconds(), stats.Steps)
	rr, err := engine.NativeReplay(repoDir(), harnessDir(), fixtures, false, 10*time.Minute)
	if err != nil {
		fmt.Println("selftest: native replay:", err)
		return 3
	}
	mism := 0
	for i := range rr {
		d := engine.CompareOutputs(fixtures[i], &rr[i])
		if len(d) > 0 {
			mism++
			if mism <= 15 {
				c := cases[fxJob[i]]
				fmt.Printf("selftest: MISMATCH %s path=%q json=%s\n   %v\n", jobs[fxJob[i]].ID, c.Path, c.JSON, d)
			}
		}
	}
	fmt.Printf("selftest: %d pairs compared, %d mismatches, %d not runnable, %.1fs\n", len(rr), mism, bad, time.Since(t0).Seconds())
	if mism > 0 || bad > 0 {
		return 3
	}
	return 0
}

func cmdReplay(path string, flags map[string]string) int {
	b, err := os.ReadFile(path)
	if err != nil {
		fmt.Println("replay:", err)
		return 3
	}
	var fx engine.Fixture
	if err := json.Unmarshal(b, &fx); err != nil {
		fmt.Println("replay: bad fixture:", err)
		return 3
	}
	rr, err := engine.NativeReplay(repoDir(), harnessDir(), []*engine.Fixture{&fx}, flags["race"] != "", 5*time.Minute)
	if err != nil || len(rr) != 1 {
		fmt.Println("replay: native run failed:", err)
		return 3
	}
	r := rr[0]
	fmt.Printf("replay %s harness=%s job=%s\n  params=%v\n  holes=%v\n", path, fx.Harness, fx.JobID, fx.Params, fx.Holes)
	for k, v := range r.Out {
		fmt.Printf("  native %s = %s\n", k, v)
	}
	switch {
	case r.Crashed:
		fmt.Printf("  the process crashed: %s\n", r.CrashMsg)
		return 1
	case r.Panicked:
		fmt.Printf("  panic: %s\n", r.PanicMsg)
		return 1
	case len(r.Failed) > 0:
		fmt.Printf("  failed assertions: %v\n", r.Failed)
		return 1
	}
	fmt.Println("  no assertion failed on the current tree")
	return 0
}
